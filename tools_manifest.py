#!/usr/bin/env python3
# Regenerates /verif/MANIFEST.json from the table below (run by hand after
# adding a check; the file it writes is what counts).
import json, subprocess

BUILT = {
 "C19": ("exploration", "reference conversion (encoding/csv configured like the importer + independent type conversion) vs the real makeConfig/colDataTypes/doBatchInsert driven in-package (go test -overlay): event accounting in arrival order and stored rows read back; plus the csvimport binary end to end (flags, stdin, stdout reports, exit status) between two engine processes",
         "Held on the streams explored: all four destination types, mappings, separators, NULL markers, short records, bad quoting, unparsable / out-of-range numbers, oversized rows.",
         "what a record is, is decided by encoding/csv; canonical number spellings only"),
 "C20": ("exploration", "typed vs submitted statements compared as token sequences (real SQL tokenizer) on the real Terminal.ReadLine driven in-package (go test -overlay); plus whole console sessions end to end: the console's runTerminal on a pseudo-terminal with a real Session, effects read back from the database; streams include bracketed pastes, false starts killed with Ctrl-A Ctrl-K and typing errors put right in mid-line",
         "Held on the keystroke streams explored: 1-8 statements, line breaks at token boundaries, several statements per line, literals with semicolons / other quotes / spaces, three delivery modes incl. chunks that split UTF-8 sequences.",
         "no line break inside a literal; lines under the terminal's 4096-rune buffer"),
 "C13": ("exploration", "(a) Go race detector on a -race build with the real flush timer and sleep-only handlers that park statements across > 2 ticks; (b) offline checker over a hook event log (goroutine ids): no foreign page/header write inside a statement's change window; one pass per build keeps a store open for over 35 s",
         "Held on the passes explored: every statement kind x placement (park at 2nd page change, inside the log append, at a cache miss; idle gaps), fresh and reloaded pages. Happens-before detection does not depend on the observed timing.",
         "parks span > 2 ticks; race-build handlers add no synchronisation; races outside the five statement kinds (e.g. USE opening a store) are recorded, not judged"),
 "C17": ("exploration", "model of databases vs the real session under the real 100 ms flush timer: reads after every successful USE, and recovery + read of a copy of the data directory at every restart boundary (clean / os.Exit / SIGKILL / SIGKILL right after an acknowledged statement)",
         "Held on the scripts explored (USE other/same/missing/other-case, CREATE DATABASE new/existing, SHOW, DDL/DML, pauses, restarts over 2-4 databases).",
         "names compared case-insensitively; abrupt restarts follow a pause of > 2 ticks"),
 "C09": ("exploration", "recover() + logical step budgets (scanner characters, token-list reads, enforced from hooks) + allocation bound around the session's tokenise+parse path, in child processes",
         "Exhaustive over all token sequences up to length 2 (quick) / 3 (thorough) of the full vocabulary and longer ones over a reduced vocabulary; all byte and token prefixes of thousands of valid statements; mutations; quote and numeric pathology; random bytes; 10^5-deep nesting.",
         "budgets are far above what valid input uses (observed ratio reported); a wall-clock timeout alone is inconclusive"),
 "C10": ("exploration", "generated statement tree vs the neutral form of the parsed statement (AND/OR chains flattened), four renderings per tree; plus a metamorphic monitor: the same text parsed after two different predecessors must parse the same",
         "Held on the trees explored over the whole grammar; every AND/OR shape up to 5 predicates enumerated; every list kind with >= 3 elements.",
         "literals without quote/backslash/newline; positions not compared"),
 "C18": ("exploration", "recover() around Session.ExecQuery in child processes, over type-confused statement families and four session states; plus sessions against the real 100 ms flush goroutine with statements held open by sleep-only hook handlers, a non-returning statement confirmed by a second run with a 120 s allowance",
         "Held on the statements explored (thousands per run, every family in every session state; hundreds of statements held open across timer ticks, all returned).",
         "any result or error value is acceptable"),
 "C05": ("exploration", "independent reference SQL evaluator over the model vs the real parse path + EvaluateSelect on a real database (ORDER BY ties and LIMIT windows judged up to the freedom the property leaves)",
         "Held on the queries explored: thousands of generated single-table queries per run over all clause combinations, all six operators on all types, and every AND/OR shape up to 4 predicates on a truth table.",
         "non-NULL operands; names of unnamed expressions not judged"),
 "C06": ("exploration", "join-by-definition reference evaluator (explicit NULL padding) vs the real engine, multiset comparison; ambiguity probes must be rejected; plus sessions asking joins over the catalog tables after every statement, judged against the model of what was created",
         "Held on the join chains explored: all nine two-join type sequences, self-joins, empty sides, duplicate keys.",
         "non-NULL join keys"),
 "C07": ("exploration", "exact-sum reference aggregates vs the real engine as multisets, on three insertion orders of the same rows (order-independence monitor); plus sessions that ask the same bare aggregates after every statement (user and catalog tables), judged against the rows SELECT * returns at that moment",
         "Held except for one recorded known finding (AVG re-rounds a running average); grouping by 0-3 columns referenced by name/qualifier/alias at any select-list position, collision-bait values, on top of WHERE and JOIN.",
         "AVG over integer columns, NULLs only under COUNT(col); .5 averages accept both neighbours"),
 "C12": ("exploration", "encode/decode, double round trip and write/cold-read round trip of nodes built with the engine's own primitives, logical dumps compared",
         "Held on the nodes explored: every leaf cell count, every tombstone mask <= 6 cells, all flag combinations, boundary and sampled (quick) / all (thorough) value lengths, internal nodes 0..290 cells, split halves, thousands of random nodes.",
         "only shapes producible with ascending keys are judged; free-gap bytes not compared"),
 "C15": ("exploration", "step-by-step comparison of the real LRUCache (holding real nodes) with a reference LRU model: return values and resident state after every step",
         "Exhaustive over all operation sequences of the stated depth for 2-4 keys and capacities 1-3; random long sequences at capacities 4-64.",
         "dirty/clean transitions happen through the node pointer without recency change, as in the B+ tree code"),
 "C08": ("exploration", "exact read-back of stored values at four stages (hot, flushed + reloaded through a 16-page cache, new process, crash + recovery) against the model; acceptance predicted by the model",
         "Held on the values explored: all 84 schemas of <= 3 columns + sampled wider ones, all type boundaries, every single byte, rows at 399/400/401/437 bytes for INSERT and UPDATE, wrong SQL and Go types; text and direct submission.",
         "SQL text cannot express negative ints, NULL, quotes/backslashes/newlines in strings: direct values only for those"),
 "C16": ("exploration", "differential run: same workload at cache capacities just above the measured per-statement dirty set vs the default capacity; outcomes, SELECT results with row ids and final contents must be identical",
         "Held on the workloads and capacities explored; the property's precondition (dirty set fits the cache) is guaranteed by construction.",
         "the default-capacity run is the reference"),
 "C14": ("exploration", "before/after/restart/crash snapshots around failing statements (every cause, invalid row at every position), compared with the unchanged model; later valid statements checked in the same session (after a leaf split) and after a restart",
         "Held on the failing statements explored: every cause the property names, k = 1..n for n-row INSERTs, k-th overflowing row for UPDATEs, on states with splits and tombstones.",
         "which error value is returned is not judged; ids may have gaps"),
 "C04": ("fault_enumeration", "crash image before every page write and the header write of every flush (timer-equivalent, CREATE TABLE, close, recovery's own), recovered in fresh processes, compared with the model; second-level crashes inside recovery's flush; plus crash points at system-call level, independent of the hooks: the history re-run under strace, SIGKILL injected on entry to the n-th write call on the data file",
         "Every write of every flush of every generated history is a crash point; page orders are those the engine produced. One class of images (torn flush carrying a page allocation) is a recorded known finding and not judged.",
         "process-death crash model, no torn page writes; a table whose CREATE was in flight is not judged"),
 "C03": ("fault_enumeration", "crash image before every write and fsync a statement issues on the log (two cuts), recovered in fresh processes; prefix-state oracle; idempotence; continuation; plus strace-injected SIGKILL on entry to every write and fsync call on the log file (independent of the hooks)",
         "Every log write/fsync of every armed statement is a crash point, in both cuts; armed statements and prefix histories are sampled.",
         "process-death crash model; fsync cut applies to the log only; data file quiescent while logging (C13)"),
 "C01": ("exploration", "reference-model monitor: SELECT * of every table and the catalog compared with an in-memory model after every statement of seeded histories run on the real engine",
         "Held on the histories explored (hundreds to thousands per run, with leaf/internal/root/catalog splits, tombstones crossing splits, reloads); not a proof for all histories.",
         "trusted: Go runtime, the plain reference model, SELECT path used for observation"),
 "C02": ("fault_enumeration", "crash images at every statement boundary x flush schedule, recovered in fresh processes, compared with the model; idempotence; continuation; real SIGKILL cross-check",
         "Every statement boundary of every generated history is crashed (enumeration inside each history); histories and flush schedules are sampled, pure schedules forced.",
         "process-death crash model as the property states; image = copy of data/ with the timer off, cross-validated by real kill -9"),
 "C11": ("exploration", "structural-invariant walker over page dumps at quiescent points + the engine's own point lookup and reverse scan",
         "Held on every walk of the histories explored, up to three levels (quick) / four levels (thorough).",
         "trusted: verif page accessors (read-only)"),
}

props = [json.loads(l) for l in open('/verif/properties.jsonl')]
hooks = subprocess.run(['git','-C','/repo','log','--format=%h %s'],capture_output=True,text=True).stdout.splitlines()
hook_commits = [l.split()[0] for l in hooks if l.split(' ',1)[1].startswith('verif hook')]
m = {
 "version": 1,
 "setup_cmd": "sh -c 'export GOFLAGS=-mod=mod GOPROXY=off GOSUMDB=off GOTOOLCHAIN=local; mkdir -p bin && cd harness && go build -o ../bin/check ./cmd/check && go build -tags verif -o /dev/null ./cmd/vdriver'",
 "hooks": {
  "guard": "verif",
  "enable": "go build -tags verif (every check rebuilds harness/cmd/vdriver against /repo's working tree with the tag; cmd/console and cmd/csvimport monitors use go test -tags verif -overlay)",
  "baseline_off_cmd": "sh -c 'cd /repo && GOFLAGS=-mod=mod GOPROXY=off GOSUMDB=off GOTOOLCHAIN=local go test -vet=off -count=1 ./...'",
  "source_commits": hook_commits[::-1],
  "add_only": True,
 },
 "engines": [{"name": "check+vdriver", "path": "/verif/harness", "serves_properties": sorted(BUILT), "kind_free_text": "Go orchestrator (generators, reference models, oracles) driving child processes that link the real mkdb built with -tags verif"}],
 "checks": [],
 "not_applicable": [],
 "notes": "Technique family: runtime monitoring. See DESIGN.md. VERIF_SEED selects the workload; exit 0 held / 1 violation / 2 inconclusive (coverage floor missed) / 3 build failure.",
}
for p in props:
    i = p['id']
    if i in BUILT:
        lvl, tech, text, note = BUILT[i]
        m['checks'].append({
         "property_id": i,
         "quick_cmd": "./vcheck %s quick" % i,
         "thorough_cmd": "./vcheck %s thorough" % i,
         "evidence_file": "/verif/evidence/%s.json" % i,
         "replay_cmd_template": "cat {path}",
         "engine": "check+vdriver",
         "level_claimed": {"category": lvl, "text": text, "design_ref": "DESIGN.md section 4, " + i},
         "level_note": note,
         "technique": "runtime monitoring: " + tech,
        })
    else:
        m['not_applicable'].append({"property_id": i, "reason": "check not built yet in this revision (work in progress; DESIGN.md section 4 describes the planned monitor)"})
json.dump(m, open('/verif/MANIFEST.json', 'w'), indent=1)
print("checks:", [c['property_id'] for c in m['checks']])
