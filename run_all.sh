#!/bin/sh
# usage: run_all.sh [tier] [seed...]   runs every registered check, prints one line each
TIER=${1:-quick}; shift
SEEDS=${*:-1}
cd "$(dirname "$0")"
for s in $SEEDS; do
  for p in $(python3 -c "import json;print(' '.join(c['property_id'] for c in json.load(open('MANIFEST.json'))['checks']))"); do
    out=$(VERIF_SEED=$s ./vcheck $p $TIER 2>&1); rc=$?
    echo "seed=$s $p rc=$rc $(echo "$out" | grep -c '^VIOLATION') violation-lines; $(echo "$out" | grep "tier=" | sed 's/.*evaluations/evaluations/')"
    if [ $rc -ne 0 ]; then echo "$out" | grep "VIOLATION\|INCONCLUSIVE\|what:" | head -8; fi
  done
done
