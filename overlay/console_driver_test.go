//go:build verif

package main

// Thin in-package driver for the console monitor (C20). It is NOT a file of
// the repository: it is injected at build time with `go test -overlay`. It
// feeds byte streams to the real Terminal and reports what ReadLine returned,
// tokenised with the real SQL tokenizer. It judges nothing.

import (
	"encoding/hex"
	"encoding/json"
	"io"
	"os"
	"strings"
	"testing"

	"github.com/mk6i/mkdb/sql"
)

type verifStream struct {
	Hex      string   `json:"hex"`      // the keystrokes
	Chunks   []int    `json:"chunks"`   // sizes of successive reads (cycled); empty: whole buffer
	Expected []string `json:"expected"` // the typed statements (each ends with ;)
}

type verifTok struct {
	T int    `json:"t"`
	X string `json:"x"`
}

type verifOut struct {
	Lines    [][]string   `json:"lines"` // ReadLine results in order
	Err      string       `json:"err,omitempty"`
	Panic    string       `json:"panic,omitempty"`
	Got      [][]verifTok `json:"got"`  // token sequence of every submitted statement
	Want     [][]verifTok `json:"want"` // token sequence of every typed statement
	Reads    int          `json:"reads"`
}

type verifRW struct {
	data   []byte
	chunks []int
	i      int
	reads  int
}

func (v *verifRW) Read(p []byte) (int, error) {
	if len(v.data) == 0 {
		return 0, io.EOF
	}
	n := len(p)
	if len(v.chunks) > 0 {
		if c := v.chunks[v.i%len(v.chunks)]; c < n {
			n = c
		}
		v.i++
	}
	if n > len(v.data) {
		n = len(v.data)
	}
	if n == 0 {
		n = 1
	}
	copy(p, v.data[:n])
	v.data = v.data[n:]
	v.reads++
	return n, nil
}

func (v *verifRW) Write(p []byte) (int, error) { return len(p), nil }

func verifTokens(s string) []verifTok {
	ts := sql.NewTokenScanner(strings.NewReader(s))
	var out []verifTok
	for ts.Next() {
		t := ts.Cur()
		out = append(out, verifTok{T: int(t.Type), X: t.Text})
	}
	return out
}

func TestVerifDriver(t *testing.T) {
	in, outp := os.Getenv("VERIF_IN"), os.Getenv("VERIF_OUT")
	if in == "" {
		t.Skip("no script")
	}
	b, err := os.ReadFile(in)
	if err != nil {
		t.Fatal(err)
	}
	var streams []verifStream
	if err := json.Unmarshal(b, &streams); err != nil {
		t.Fatal(err)
	}
	devnull, _ := os.OpenFile("/dev/null", os.O_WRONLY, 0)
	os.Stderr = devnull
	outs := make([]verifOut, len(streams))
	for i, st := range streams {
		func() {
			o := &outs[i]
			defer func() {
				if r := recover(); r != nil {
					o.Panic = "panic: " + strings.SplitN(strings.TrimSpace(sprint(r)), "\n", 2)[0]
				}
			}()
			raw, _ := hex.DecodeString(st.Hex)
			rw := &verifRW{data: raw, chunks: st.Chunks}
			term := NewTerminal(rw, "")
			for _, e := range st.Expected {
				o.Want = append(o.Want, verifTokens(e))
			}
			for {
				lines, err := term.ReadLine()
				if len(lines) > 0 {
					o.Lines = append(o.Lines, lines)
					for _, l := range lines {
						o.Got = append(o.Got, verifTokens(l))
					}
				}
				if err != nil {
					if err != io.EOF {
						o.Err = err.Error()
					}
					break
				}
				if len(o.Lines) > 10000 {
					o.Err = "too many lines"
					break
				}
			}
			o.Reads = rw.reads
		}()
	}
	res, _ := json.Marshal(outs)
	if err := os.WriteFile(outp, res, 0644); err != nil {
		t.Fatal(err)
	}
}

func sprint(v interface{}) string {
	if e, ok := v.(error); ok {
		return e.Error()
	}
	if s, ok := v.(string); ok {
		return s
	}
	return "non-string panic value"
}
