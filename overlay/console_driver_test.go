//go:build verif

package main

// Thin in-package driver for the console monitor (C20). It is NOT a file of
// the repository: it is injected at build time with `go test -overlay`. It
// feeds byte streams to the real Terminal and reports what ReadLine returned,
// tokenised with the real SQL tokenizer (TestVerifDriver), and drives the
// console's runTerminal loop on a pseudo-terminal (TestVerifE2E). It judges
// nothing.

import (
	"encoding/hex"
	"encoding/json"
	"fmt"
	"io"
	"os"
	"strings"
	"syscall"
	"testing"
	"time"
	"unsafe"

	"github.com/mk6i/mkdb/engine"
	"github.com/mk6i/mkdb/sql"
	"github.com/mk6i/mkdb/storage"
	"golang.org/x/term"
)

type verifStream struct {
	Hex      string   `json:"hex"`      // the keystrokes
	Chunks   []int    `json:"chunks"`   // sizes of successive reads (cycled); empty: whole buffer
	Expected []string `json:"expected"` // the typed statements (each ends with ;)
}

type verifTok struct {
	T int    `json:"t"`
	X string `json:"x"`
}

type verifOut struct {
	Lines    [][]string   `json:"lines"` // ReadLine results in order
	Err      string       `json:"err,omitempty"`
	Panic    string       `json:"panic,omitempty"`
	Got      [][]verifTok `json:"got"`  // token sequence of every submitted statement
	Want     [][]verifTok `json:"want"` // token sequence of every typed statement
	Reads    int          `json:"reads"`
}

type verifRW struct {
	data   []byte
	chunks []int
	i      int
	reads  int
}

func (v *verifRW) Read(p []byte) (int, error) {
	if len(v.data) == 0 {
		return 0, io.EOF
	}
	n := len(p)
	if len(v.chunks) > 0 {
		if c := v.chunks[v.i%len(v.chunks)]; c < n {
			n = c
		}
		v.i++
	}
	if n > len(v.data) {
		n = len(v.data)
	}
	if n == 0 {
		n = 1
	}
	copy(p, v.data[:n])
	v.data = v.data[n:]
	v.reads++
	return n, nil
}

func (v *verifRW) Write(p []byte) (int, error) { return len(p), nil }

func verifTokens(s string) []verifTok {
	ts := sql.NewTokenScanner(strings.NewReader(s))
	var out []verifTok
	for ts.Next() {
		t := ts.Cur()
		out = append(out, verifTok{T: int(t.Type), X: t.Text})
	}
	return out
}

func TestVerifDriver(t *testing.T) {
	in, outp := os.Getenv("VERIF_IN"), os.Getenv("VERIF_OUT")
	if in == "" {
		t.Skip("no script")
	}
	b, err := os.ReadFile(in)
	if err != nil {
		t.Fatal(err)
	}
	var streams []verifStream
	if err := json.Unmarshal(b, &streams); err != nil {
		t.Fatal(err)
	}
	devnull, _ := os.OpenFile("/dev/null", os.O_WRONLY, 0)
	os.Stderr = devnull
	outs := make([]verifOut, len(streams))
	for i, st := range streams {
		func() {
			o := &outs[i]
			defer func() {
				if r := recover(); r != nil {
					o.Panic = "panic: " + strings.SplitN(strings.TrimSpace(sprint(r)), "\n", 2)[0]
				}
			}()
			raw, _ := hex.DecodeString(st.Hex)
			rw := &verifRW{data: raw, chunks: st.Chunks}
			term := NewTerminal(rw, "")
			for _, e := range st.Expected {
				o.Want = append(o.Want, verifTokens(e))
			}
			for {
				lines, err := term.ReadLine()
				if len(lines) > 0 {
					o.Lines = append(o.Lines, lines)
					for _, l := range lines {
						o.Got = append(o.Got, verifTokens(l))
					}
				}
				if err == ErrPasteIndicator {
					// "in addition to valid line data": the line was pasted
					// between paste brackets, that is all it says
					err = nil
				}
				if err != nil {
					if err != io.EOF {
						o.Err = err.Error()
					}
					break
				}
				if len(o.Lines) > 10000 {
					o.Err = "too many lines"
					break
				}
			}
			o.Reads = rw.reads
		}()
	}
	res, _ := json.Marshal(outs)
	if err := os.WriteFile(outp, res, 0644); err != nil {
		t.Fatal(err)
	}
}

func sprint(v interface{}) string {
	if e, ok := v.(error); ok {
		return e.Error()
	}
	if s, ok := v.(string); ok {
		return s
	}
	return "non-string panic value"
}

// ---------------------------------------------------------------------------
// End to end: the console's own runTerminal loop on a pseudo-terminal, with a
// real engine.Session behind it. Keystrokes go into the pty master; what
// reached the engine is read back from the database afterwards.

type verifE2EOut struct {
	Rows  [][2]string `json:"rows"` // (n, s) of table log, in order: i<dec>, s<hex>
	Err   string      `json:"err,omitempty"`
	Panic string      `json:"panic,omitempty"`
}

func verifOpenPty() (master, slave *os.File, err error) {
	master, err = os.OpenFile("/dev/ptmx", os.O_RDWR|syscall.O_NOCTTY, 0)
	if err != nil {
		return nil, nil, err
	}
	var unlock int32
	if _, _, e := syscall.Syscall(syscall.SYS_IOCTL, master.Fd(), syscall.TIOCSPTLCK, uintptr(unsafe.Pointer(&unlock))); e != 0 {
		return nil, nil, e
	}
	var n uint32
	if _, _, e := syscall.Syscall(syscall.SYS_IOCTL, master.Fd(), syscall.TIOCGPTN, uintptr(unsafe.Pointer(&n))); e != 0 {
		return nil, nil, e
	}
	slave, err = os.OpenFile(fmt.Sprintf("/dev/pts/%d", n), os.O_RDWR|syscall.O_NOCTTY, 0)
	return master, slave, err
}

func TestVerifE2E(t *testing.T) {
	in, outp := os.Getenv("VERIF_IN"), os.Getenv("VERIF_OUT")
	if in == "" {
		t.Skip("no script")
	}
	b, err := os.ReadFile(in)
	if err != nil {
		t.Fatal(err)
	}
	var streams []verifStream
	if err := json.Unmarshal(b, &streams); err != nil {
		t.Fatal(err)
	}
	master, slave, err := verifOpenPty()
	if err != nil {
		t.Fatal("pty: " + err.Error())
	}
	if _, err := term.MakeRaw(int(slave.Fd())); err != nil {
		t.Fatal("raw: " + err.Error())
	}
	// runTerminal works on file descriptors 0 and 1
	if err := syscall.Dup2(int(slave.Fd()), 0); err != nil {
		t.Fatal(err)
	}
	if err := syscall.Dup2(int(slave.Fd()), 1); err != nil {
		t.Fatal(err)
	}
	go io.Copy(io.Discard, master) // prompt, echo and result tables
	outs := make([]verifE2EOut, len(streams))
	hung := false
	for i, st := range streams {
		if hung {
			outs[i].Err = "not-run"
			continue
		}
		func() {
			o := &outs[i]
			defer func() {
				if r := recover(); r != nil {
					o.Panic = "panic: " + strings.SplitN(strings.TrimSpace(sprint(r)), "\n", 2)[0]
				}
			}()
			db := fmt.Sprintf("e%d", i)
			sess := &engine.Session{}
			for _, q := range []string{"CREATE DATABASE " + db, "USE " + db, "CREATE TABLE log (n INT, s VARCHAR(120))"} {
				if err := sess.ExecQuery(q); err != nil {
					o.Err = "setup: " + err.Error()
					return
				}
			}
			raw, _ := hex.DecodeString(st.Hex)
			raw = append(raw, 4) // Ctrl-D on an empty line ends the session
			done := make(chan error, 1)
			go func() {
				k := 0
				for len(raw) > 0 {
					n := len(raw)
					if len(st.Chunks) > 0 {
						if c := st.Chunks[k%len(st.Chunks)]; c < n {
							n = c
						}
						k++
					}
					if _, err := master.Write(raw[:n]); err != nil {
						done <- err
						return
					}
					raw = raw[n:]
				}
				done <- nil
			}()
			ended := make(chan error, 1)
			go func() { ended <- runTerminal(sess) }()
			if werr := <-done; werr != nil {
				o.Err = "typing: " + werr.Error()
				hung = true
				return
			}
			var rerr error
			select {
			case rerr = <-ended:
			case <-time.After(30 * time.Second):
				// every keystroke incl. the closing Ctrl-D was delivered and the
				// console is still reading: nothing more can run in this process
				o.Err = "no-return: runTerminal was still running 30 s after the last keystroke (Ctrl-D on an empty line) had been written"
				hung = true
				return
			}
			if rerr != nil {
				o.Err = "runTerminal: " + rerr.Error()
				return
			}
			sess.Close()
			rm, err := storage.OpenRelation(db, true)
			if err != nil {
				o.Err = "open: " + err.Error()
				return
			}
			defer rm.Close()
			ts := sql.NewTokenScanner(strings.NewReader("select n, s from log"))
			tl := sql.TokenList{}
			for ts.Next() {
				tl.Add(ts.Cur())
			}
			p := sql.Parser{TokenList: tl}
			q, err := p.Parse()
			if err != nil {
				o.Err = "parse: " + err.Error()
				return
			}
			rows, _, err := engine.EvaluateSelect(q.(sql.Select), rm)
			if err != nil {
				o.Err = "select: " + err.Error()
				return
			}
			for _, r := range rows {
				var c [2]string
				for j := 0; j < 2 && j < len(r.Vals); j++ {
					switch x := r.Vals[j].(type) {
					case int64:
						c[j] = fmt.Sprintf("i%d", x)
					case string:
						c[j] = "s" + hex.EncodeToString([]byte(x))
					default:
						c[j] = fmt.Sprintf("x%v", x)
					}
				}
				o.Rows = append(o.Rows, c)
			}
		}()
	}
	res, _ := json.Marshal(outs)
	if err := os.WriteFile(outp, res, 0644); err != nil {
		t.Fatal(err)
	}
}
