//go:build verif

package main

// Thin in-package driver for the CSV import monitor (C19). Injected at build
// time with `go test -overlay`; not a file of the repository. For each case it
// creates a fresh database and table, runs the real makeConfig (flags ->
// configuration) and doBatchInsert on the given CSV bytes, drains both channels in arrival order
// and reads the table back. It judges nothing.

import (
	"bytes"
	"encoding/hex"
	"encoding/json"
	"fmt"
	"os"
	"strings"
	"testing"

	"github.com/mk6i/mkdb/engine"
	"github.com/mk6i/mkdb/sql"
	"github.com/mk6i/mkdb/storage"
)

type verifCol struct {
	Name string `json:"n"`
	Type string `json:"t"`
	Len  int64  `json:"len"`
}

type verifCase struct {
	Cols    []verifCol `json:"cols"`
	DstCols []string   `json:"dst"`
	SrcCols []int      `json:"src"`
	Sep     string     `json:"sep"`
	CSVHex  string     `json:"csv"`
}

type verifRow struct {
	ID   uint32   `json:"id"`
	Vals []string `json:"v"` // n, i<dec>, s<hex>, bt/bf
}

type verifResult struct {
	Events string     `json:"events"` // o = ok, e = error, in arrival order
	Errors []string   `json:"errors"`
	Types  []int      `json:"types"`
	Rows   []verifRow `json:"rows"`
	Err    string     `json:"err,omitempty"`
	Panic  string     `json:"panic,omitempty"`
}

func verifEnc(v interface{}) string {
	switch x := v.(type) {
	case nil:
		return "n"
	case int64:
		return fmt.Sprintf("i%d", x)
	case string:
		return "s" + hex.EncodeToString([]byte(x))
	case bool:
		if x {
			return "bt"
		}
		return "bf"
	}
	return fmt.Sprintf("x%T", v)
}

func TestVerifDriver(t *testing.T) {
	in, outp := os.Getenv("VERIF_IN"), os.Getenv("VERIF_OUT")
	if in == "" {
		t.Skip("no script")
	}
	b, err := os.ReadFile(in)
	if err != nil {
		t.Fatal(err)
	}
	var cases []verifCase
	if err := json.Unmarshal(b, &cases); err != nil {
		t.Fatal(err)
	}
	storage.VerifNoAutoFlush = true
	stdout := os.Stdout
	devnull, _ := os.OpenFile("/dev/null", os.O_WRONLY, 0)
	os.Stdout = devnull
	defer func() { os.Stdout = stdout }()
	outs := make([]verifResult, len(cases))
	for i, cs := range cases {
		outs[i] = verifRun(i, cs)
	}
	res, _ := json.Marshal(outs)
	if err := os.WriteFile(outp, res, 0644); err != nil {
		t.Fatal(err)
	}
}

func verifRun(i int, cs verifCase) (o verifResult) {
	defer func() {
		if r := recover(); r != nil {
			o.Panic = fmt.Sprint(r)
		}
	}()
	db := fmt.Sprintf("db%d", i)
	if err := storage.MakeDataDir(); err != nil {
		o.Err = err.Error()
		return
	}
	if err := storage.CreateDB(db); err != nil {
		o.Err = "createdb: " + err.Error()
		return
	}
	rm, err := storage.OpenRelation(db, true)
	if err != nil {
		o.Err = "open: " + err.Error()
		return
	}
	defer rm.Close()
	ct := sql.CreateTable{Name: "t"}
	for _, c := range cs.Cols {
		cd := sql.ColumnDefinition{Name: c.Name}
		switch c.Type {
		case "int":
			cd.DataType = sql.NumericType{}
		case "bigint":
			cd.DataType = sql.BigIntType{}
		case "boolean":
			cd.DataType = sql.BooleanType{}
		default:
			cd.DataType = sql.CharacterStringType{Len: c.Len, Type: sql.T_VARCHAR}
		}
		ct.Elements = append(ct.Elements, sql.TableElement{ColumnDefinition: cd})
	}
	if err := engine.EvaluateCreateTable(ct, rm); err != nil {
		o.Err = "create table: " + err.Error()
		return
	}
	// the configuration is built by the tool's own makeConfig from its
	// command line flags, exactly as main does
	var src []string
	for _, i := range cs.SrcCols {
		src = append(src, fmt.Sprint(i))
	}
	*cfgDb, *cfgDestCols, *cfgSep, *cfgSrcCols, *cfgTable = db, strings.Join(cs.DstCols, ","), cs.Sep, strings.Join(src, ","), "t"
	cfg, err := makeConfig(rm)
	if err != nil {
		o.Err = "makeConfig: " + err.Error()
		return
	}
	for _, t := range cfg.colTypes {
		o.Types = append(o.Types, int(t))
	}
	raw, _ := hex.DecodeString(cs.CSVHex)
	chOk, chErr := doBatchInsert(rm, cfg, bytes.NewReader(raw))
	var ev strings.Builder
	for chOk != nil || chErr != nil {
		select {
		case _, ok := <-chOk:
			if ok {
				ev.WriteByte('o')
			} else {
				chOk = nil
			}
		case e, ok := <-chErr:
			if ok {
				ev.WriteByte('e')
				if len(o.Errors) < 50 {
					o.Errors = append(o.Errors, e.Error())
				}
			} else {
				chErr = nil
			}
		}
	}
	o.Events = ev.String()
	ts := sql.NewTokenScanner(strings.NewReader("select * from t"))
	tl := sql.TokenList{}
	for ts.Next() {
		tl.Add(ts.Cur())
	}
	p := sql.Parser{TokenList: tl}
	q, err := p.Parse()
	if err != nil {
		o.Err = "parse: " + err.Error()
		return
	}
	rows, _, err := engine.EvaluateSelect(q.(sql.Select), rm)
	if err != nil {
		o.Err = "select: " + err.Error()
		return
	}
	for _, r := range rows {
		vr := verifRow{ID: r.RowID}
		for _, v := range r.Vals {
			vr.Vals = append(vr.Vals, verifEnc(v))
		}
		o.Rows = append(o.Rows, vr)
	}
	return
}
