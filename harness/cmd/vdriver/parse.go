package main

import (
	"encoding/json"
	"fmt"
	"runtime"
	"runtime/debug"

	"github.com/mk6i/mkdb/engine"
	"github.com/mk6i/mkdb/sql"

	"verif/harness/proto"
)

var cmpName = map[sql.TokenType]string{sql.EQ: "=", sql.NEQ: "!=", sql.LT: "<", sql.LTE: "<=", sql.GT: ">", sql.GTE: ">="}

func nOperand(x interface{}) (*proto.Operand, bool) {
	switch v := x.(type) {
	case sql.ColumnReference:
		return &proto.Operand{Qual: v.Qualifier, Col: v.ColumnName}, true
	case int64, string, bool:
		pv := toVal(v)
		return &proto.Operand{Lit: &pv}, true
	case nil:
		pv := proto.Null()
		return &proto.Operand{Lit: &pv}, true
	}
	return nil, false
}

func nExpr(x interface{}) *proto.Cond {
	switch v := x.(type) {
	case sql.WhereClause:
		return nExpr(v.SearchCondition)
	case sql.SearchCondition:
		return &proto.Cond{Op: "or", L: nExpr(v.LHS), R: nExpr(v.RHS)}
	case sql.BooleanTerm:
		return &proto.Cond{Op: "and", L: nExpr(v.LHS), R: nExpr(v.RHS)}
	case sql.Predicate:
		return nExpr(v.ComparisonPredicate)
	case sql.ComparisonPredicate:
		c := &proto.Cond{Op: cmpName[v.CompOp]}
		if c.Op == "" {
			c.Op = fmt.Sprintf("?op%d", v.CompOp)
		}
		var ok1, ok2 bool
		c.LHS, ok1 = nOperand(v.LHS)
		c.RHS, ok2 = nOperand(v.RHS)
		if !ok1 || !ok2 {
			c.Op = fmt.Sprintf("?cmp(%T,%T)", v.LHS, v.RHS)
		}
		return c
	}
	if o, ok := nOperand(x); ok {
		return &proto.Cond{Op: "val", LHS: o}
	}
	return &proto.Cond{Op: fmt.Sprintf("?%T", x)}
}

func nFrom(tr sql.TableReference, out *[]proto.NTable) {
	switch v := tr.(type) {
	case sql.TableName:
		t := proto.NTable{Name: v.Name}
		if v.CorrelationName != nil {
			t.Alias = fmt.Sprint(v.CorrelationName)
		}
		*out = append(*out, t)
	case sql.QualifiedJoin:
		nFrom(v.LHS, out)
		var rhs []proto.NTable
		nFrom(v.RHS, &rhs)
		if len(rhs) != 1 {
			*out = append(*out, proto.NTable{Name: "?nested-rhs"})
			return
		}
		t := rhs[0]
		switch v.JoinType {
		case sql.LEFT_JOIN:
			t.Join = "left"
		case sql.RIGHT_JOIN:
			t.Join = "right"
		case sql.INNER_JOIN:
			t.Join = "inner"
		default:
			t.Join = fmt.Sprintf("?join%d", v.JoinType)
		}
		t.On = nExpr(v.JoinCondition)
		*out = append(*out, t)
	default:
		*out = append(*out, proto.NTable{Name: fmt.Sprintf("?%T", tr)})
	}
}

func neutral(st interface{}) *proto.NStmt {
	switch v := st.(type) {
	case sql.Select:
		n := &proto.NStmt{Kind: "select"}
		for _, dc := range v.SelectList {
			switch e := dc.ValueExpressionPrimary.(type) {
			case sql.Asterisk:
				n.Star = true
			case sql.Count:
				it := proto.NItem{Kind: "count", Alias: dc.AsClause}
				if e.ValueExpression != nil {
					o, ok := nOperand(e.ValueExpression)
					if !ok {
						it.Kind = fmt.Sprintf("?count(%T)", e.ValueExpression)
					}
					it.Arg = o
				}
				n.Items = append(n.Items, it)
			case sql.Average:
				it := proto.NItem{Kind: "avg", Alias: dc.AsClause}
				o, ok := nOperand(e.ValueExpression)
				if !ok {
					it.Kind = fmt.Sprintf("?avg(%T)", e.ValueExpression)
				}
				it.Arg = o
				n.Items = append(n.Items, it)
			default:
				n.Items = append(n.Items, proto.NItem{Kind: "expr", Expr: nExpr(e), Alias: dc.AsClause})
			}
		}
		if len(v.TableExpression.FromClause) > 1 {
			n.Other = "from clause with several elements"
		}
		for _, tr := range v.TableExpression.FromClause {
			nFrom(tr, &n.From)
		}
		if v.TableExpression.WhereClause != nil {
			n.Where = nExpr(v.TableExpression.WhereClause)
		}
		for _, g := range v.TableExpression.GroupByClause {
			n.GroupBy = append(n.GroupBy, proto.Operand{Qual: g.Qualifier, Col: g.ColumnName})
		}
		for _, ss := range v.SortSpecificationList {
			o := proto.NOrder{Col: proto.Operand{Qual: ss.SortKey.Qualifier, Col: ss.SortKey.ColumnName}}
			switch ss.OrderingSpecification.Type {
			case sql.DESC:
				o.Desc = true
			case sql.ASC:
			default:
				n.Other = fmt.Sprintf("ordering token %d", ss.OrderingSpecification.Type)
			}
			n.OrderBy = append(n.OrderBy, o)
		}
		n.HasLimit, n.Limit = v.LimitOffsetClause.LimitActive, v.LimitOffsetClause.Limit
		n.HasOffset, n.Offset = v.LimitOffsetClause.OffsetActive, v.LimitOffsetClause.Offset
		return n
	case sql.InsertStatement:
		n := &proto.NStmt{Kind: "insert", Name: v.TableName, Cols: v.InsertColumnsAndSource.InsertColumnList.ColumnNames}
		tvc, ok := v.InsertColumnsAndSource.QueryExpression.(sql.TableValueConstructor)
		if !ok {
			n.Other = fmt.Sprintf("query expression %T", v.InsertColumnsAndSource.QueryExpression)
			return n
		}
		for _, rvc := range tvc.TableValueConstructorList {
			row := []proto.Val{}
			for _, x := range rvc.RowValueConstructorList {
				row = append(row, toVal(x))
			}
			n.Rows = append(n.Rows, row)
		}
		return n
	case sql.UpdateStatementSearched:
		n := &proto.NStmt{Kind: "update", Name: v.TableName}
		for _, s := range v.Set {
			o, ok := nOperand(s.UpdateSource)
			if !ok {
				n.Other = fmt.Sprintf("update source %T", s.UpdateSource)
				o = &proto.Operand{}
			}
			n.Sets = append(n.Sets, proto.NSet{Col: s.ObjectColumn, Src: *o})
		}
		if v.Where != nil {
			n.Where = nExpr(v.Where)
		}
		return n
	case sql.DeleteStatementSearched:
		n := &proto.NStmt{Kind: "delete", Name: v.TableName}
		if v.WhereClause != nil {
			n.Where = nExpr(v.WhereClause)
		}
		return n
	case sql.CreateTable:
		n := &proto.NStmt{Kind: "create_table", Name: v.Name}
		for _, e := range v.Elements {
			d := proto.ColDef{Name: e.ColumnDefinition.Name}
			switch t := e.ColumnDefinition.DataType.(type) {
			case sql.NumericType:
				d.Type = "int"
			case sql.BigIntType:
				d.Type = "bigint"
			case sql.BooleanType:
				d.Type = "boolean"
			case sql.CharacterStringType:
				d.Type = "varchar"
				d.Len = t.Len
			default:
				d.Type = fmt.Sprintf("?%T", t)
			}
			n.Defs = append(n.Defs, d)
		}
		return n
	case sql.CreateDatabase:
		return &proto.NStmt{Kind: "create_db", Name: v.Name}
	case sql.UseStatement:
		return &proto.NStmt{Kind: "use", Name: v.DBName}
	case sql.ShowDatabase:
		return &proto.NStmt{Kind: "show"}
	}
	return &proto.NStmt{Kind: fmt.Sprintf("?%T", st)}
}

var (
	tokSteps, scanSteps   int64
	tokBudget, scanBudget int64
)

func init() {
	sql.VerifTokStep = func() {
		tokSteps++
		if tokBudget > 0 && tokSteps > tokBudget {
			panic(sentinel{"token-step-budget"})
		}
	}
	sql.VerifScanStep = func() {
		scanSteps++
		if scanBudget > 0 && scanSteps > scanBudget {
			panic(sentinel{"scanner-step-budget"})
		}
	}
	// parse: tokenise + parse through the session's own path. N/M = step
	// budgets (0: unlimited). Returns the neutral form, the step counts and
	// the bytes allocated.
	ops["parse"] = func(op *proto.Op, res *proto.Res) error {
		tokSteps, scanSteps = 0, 0
		scanBudget, tokBudget = int64(op.N), int64(op.M)
		defer func() {
			res.N, res.M = scanSteps, tokSteps
			scanBudget, tokBudget = 0, 0
		}()
		var m0, m1 runtime.MemStats
		if op.S == "mem" {
			runtime.ReadMemStats(&m0)
		}
		st, err := engine.VerifParseSQL(string(op.SQL))
		if op.S == "mem" {
			runtime.ReadMemStats(&m1)
			res.Count = int(m1.TotalAlloc - m0.TotalAlloc)
		}
		if err != nil {
			return err
		}
		if op.Dir == "noform" {
			return nil
		}
		b, err := json.Marshal(neutral(st))
		res.Raw = b
		return err
	}
}

// parsemany: parse many inputs in one op. Raw = {"in":[hex...], "scanMul":..}
// Budgets per input: scanner steps <= ScanMul*(len+16), token-list reads <=
// TokMul*(len+16). Result Raw = {"out":"oeepb...", "bad":[{i,kind,msg,frame}],
// "maxScanRatioX1000", "maxTokRatioX1000", "alloc"}.
func init() {
	ops["parsemany"] = func(op *proto.Op, res *proto.Res) error {
		var in struct {
			In      []proto.Text `json:"in"`
			ScanMul int64        `json:"scanMul"`
			TokMul  int64        `json:"tokMul"`
		}
		if err := json.Unmarshal(op.Raw, &in); err != nil {
			return err
		}
		type bad struct {
			I     int    `json:"i"`
			Kind  string `json:"kind"`
			Msg   string `json:"msg"`
			Frame string `json:"frame,omitempty"`
		}
		var o struct {
			Out     string `json:"out"`
			Bad     []bad  `json:"bad,omitempty"`
			MaxScan int64  `json:"maxScanX1000"`
			MaxTok  int64  `json:"maxTokX1000"`
			Alloc   uint64 `json:"alloc"`
			Bytes   int64  `json:"bytes"`
			Stmts   int    `json:"stmts"`
			Errors  int    `json:"errors"`
		}
		outb := make([]byte, len(in.In))
		var m0, m1 runtime.MemStats
		runtime.ReadMemStats(&m0)
		for i, t := range in.In {
			s := string(t)
			o.Bytes += int64(len(s))
			lim := int64(len(s) + 16)
			tokSteps, scanSteps = 0, 0
			scanBudget, tokBudget = in.ScanMul*lim, in.TokMul*lim
			kind, msg, frame := func() (kind, msg, frame string) {
				defer func() {
					if r := recover(); r != nil {
						if sv, ok := r.(sentinel); ok {
							kind, msg = "budget", sv.what
							return
						}
						kind, msg = "panic", fmt.Sprint(r)
						frame = topFrame(string(debugStack()))
					}
				}()
				_, err := engine.VerifParseSQL(s)
				if err != nil {
					if err.Error() == "" {
						return "emptyerr", "", ""
					}
					return "err", "", ""
				}
				return "ok", "", ""
			}()
			scanBudget, tokBudget = 0, 0
			if r := scanSteps * 1000 / lim; r > o.MaxScan {
				o.MaxScan = r
			}
			if r := tokSteps * 1000 / lim; r > o.MaxTok {
				o.MaxTok = r
			}
			switch kind {
			case "ok":
				outb[i] = 'o'
				o.Stmts++
			case "err":
				outb[i] = 'e'
				o.Errors++
			default:
				outb[i] = 'x'
				o.Bad = append(o.Bad, bad{I: i, Kind: kind, Msg: msg, Frame: frame})
			}
		}
		runtime.ReadMemStats(&m1)
		o.Alloc = m1.TotalAlloc - m0.TotalAlloc
		o.Out = string(outb)
		b, err := json.Marshal(o)
		res.Raw = b
		return err
	}
}

func debugStack() []byte { return debug.Stack() }
