package main

import (
	"encoding/json"

	"github.com/mk6i/mkdb/storage"

	"verif/harness/internal/lruseq"
	"verif/harness/proto"
)

type realLRU struct{ l *storage.VerifLRU }

func (r realLRU) Set(key, id uint64, dirty bool) bool { return r.l.Set(key, id, dirty) }
func (r realLRU) Get(key uint64) (uint64, bool, bool) { return r.l.Get(key) }
func (r realLRU) SetDirty(key uint64, d bool) bool    { return r.l.SetDirty(key, d) }
func (r realLRU) Restore(key uint64) bool             { return r.l.Restore(key) }
func (r realLRU) State() ([]uint64, []uint64, []bool, int, int) {
	return r.l.State()
}

func init() {
	// lru: runs the sequences of a spec on the real page cache; returns one
	// trace hash per sequence, or the full trace when asked.
	ops["lru"] = func(op *proto.Op, res *proto.Res) error {
		var sp lruseq.Spec
		if err := json.Unmarshal(op.Raw, &sp); err != nil {
			return err
		}
		type out struct {
			Hashes []uint64 `json:"hashes,omitempty"`
			Trace  []string `json:"trace,omitempty"`
		}
		var o out
		sp.Sequences(func(n uint64, steps []lruseq.Step) {
			tr := lruseq.RunEvery(realLRU{storage.VerifNewLRU(sp.Cap)}, steps, sp.Every)
			if sp.Full {
				o.Trace = tr
			} else {
				o.Hashes = append(o.Hashes, lruseq.Hash(tr))
			}
		})
		b, err := json.Marshal(o)
		res.Raw = b
		return err
	}
}
