package main

import (
	"os"
	"runtime"
	"syscall"
	"time"
)

// A seeded or genuine defect can make mkdb allocate absurd amounts (a garbage
// length field read from a page). The driver must die, not the machine:
// address space is capped (not under the race detector, whose shadow memory
// needs terabytes of address space) and a watchdog ends the process when the
// heap passes the cap.
const memCap = 4 << 30

func init() {
	if !raceEnabled {
		lim := syscall.Rlimit{Cur: memCap, Max: memCap}
		syscall.Setrlimit(syscall.RLIMIT_AS, &lim)
	}
	go func() {
		var ms runtime.MemStats
		for {
			time.Sleep(100 * time.Millisecond)
			runtime.ReadMemStats(&ms)
			if ms.Sys > memCap {
				os.Stderr.WriteString("fatal error: vdriver memory cap exceeded\n")
				os.Exit(97)
			}
		}
	}()
}
