package main

import (
	"bytes"
	"fmt"
	"runtime"
	"strconv"
	"sync"
	"time"

	"github.com/mk6i/mkdb/storage"

	"verif/harness/proto"
)

// C13 instrumentation. Two modes that must not be mixed:
//
//   - "race": built with -race. Handlers run only on the session goroutine
//     (markDirty, wal write, fetch miss), touch only variables no other
//     goroutine touches, and do nothing but sleep. The flusher-side hooks stay
//     nil. No happens-before edge is added between the two goroutines.
//   - "log": plain build. Every hook appends an event to one mutex-protected
//     log with the goroutine id; the orchestrator checks the log offline.
var c13 struct {
	mode       string
	parkAt     string // "", dirty2, wal (before the log write), sync (between the log write and its fsync), miss
	parkMs     int
	slowWrites int
	dirtyN     int // markDirty calls of the current statement (session goroutine only)
	parked     bool
	inStmt     bool
	mu         sync.Mutex
	seq        int
	events     []proto.Event
	stmtNo     int
}

func goid() int64 {
	var buf [64]byte
	n := runtime.Stack(buf[:], false)
	// "goroutine 123 ["
	b := buf[:n]
	b = bytes.TrimPrefix(b, []byte("goroutine "))
	i := bytes.IndexByte(b, ' ')
	if i < 0 {
		return -1
	}
	id, _ := strconv.ParseInt(string(b[:i]), 10, 64)
	return id
}

func c13log(kind string, off uint64) {
	g := goid()
	c13.mu.Lock()
	c13.seq++
	c13.events = append(c13.events, proto.Event{Seq: c13.seq, G: g, K: kind, Off: off, Stmt: c13.stmtNo})
	c13.mu.Unlock()
}

func c13park(where string) {
	if !c13.inStmt || c13.parked || c13.parkAt != where || c13.parkMs == 0 {
		return
	}
	c13.parked = true
	if c13.mode == "log" {
		c13log("parkBegin:"+where, 0)
	}
	time.Sleep(time.Duration(c13.parkMs) * time.Millisecond)
	if c13.mode == "log" {
		c13log("parkEnd:"+where, 0)
	}
}

func init() {
	// c13setup: S = mode. Installs the handlers once, before any flusher
	// goroutine exists.
	ops["c13setup"] = func(op *proto.Op, res *proto.Res) error {
		c13.mode = op.S
		c13.slowWrites = op.N // log mode: milliseconds every page write takes
		switch op.S {
		case "race":
			storage.VerifMarkDirty = func(off, lsn uint64) {
				if !c13.inStmt {
					return
				}
				c13.dirtyN++
				if c13.dirtyN == 2 {
					c13park("dirty2")
				}
			}
			storage.VerifWalWrite = func(kind, n int) { c13park("wal") }
			storage.VerifWalSync = func() { c13park("sync") }
			storage.VerifFetchMiss = func(off uint64) { c13park("miss") }
		case "log":
			storage.VerifMarkDirty = func(off, lsn uint64) {
				c13log("markDirty", off)
				if !c13.inStmt {
					return
				}
				c13.dirtyN++
				if c13.dirtyN == 2 {
					c13park("dirty2")
				}
			}
			storage.VerifWalWrite = func(kind, n int) { c13log("walWrite", 0); c13park("wal") }
			storage.VerifWalSync = func() { c13log("walSync", 0); c13park("sync") }
			storage.VerifWalDone = func() { c13log("walDone", 0) }
			storage.VerifFetchMiss = func(off uint64) { c13park("miss") }
			storage.VerifPageWrite = func(off uint64) {
				c13log("pageWrite", off)
				if c13.slowWrites > 0 {
					// a slow disk: keeps the span in which pages are being
					// written open for the statements that follow
					time.Sleep(time.Duration(c13.slowWrites) * time.Millisecond)
				}
			}
			storage.VerifHeaderWrite = func() { c13log("headerWrite", 0) }
			storage.VerifFlushBegin = func() { c13log("flushBegin", 0) }
			storage.VerifFlushEnd = func() { c13log("flushEnd", 0) }
		default:
			return fmt.Errorf("DRIVER: bad c13 mode")
		}
		return nil
	}
	// c13stmt: execute one SQL statement as a bracketed statement with the
	// given park. S = park point, N = park ms, SQL = statement.
	ops["c13stmt"] = func(op *proto.Op, res *proto.Res) error {
		c13.parkAt, c13.parkMs, c13.dirtyN, c13.parked = op.S, op.N, 0, false
		c13.stmtNo = op.ID
		if c13.mode == "log" {
			c13log("stmtBegin", 0)
		}
		c13.inStmt = true
		err := sess.ExecQuery(string(op.SQL))
		c13.inStmt = false
		if c13.mode == "log" {
			c13log("stmtEnd", 0)
		}
		if c13.parked {
			res.Count = 1
		}
		return err
	}
	ops["c13events"] = func(op *proto.Op, res *proto.Res) error {
		c13.mu.Lock()
		res.Events = c13.events
		c13.events = nil
		c13.mu.Unlock()
		res.N = goid()
		return nil
	}
}
