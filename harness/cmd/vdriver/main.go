// vdriver is the thin adapter between the orchestrator and the real mkdb
// code. It executes a script of operations (JSON lines in the file given as
// argv[1]) and prints, on its original stdout, a line "B <id>" before each
// operation and the JSON result after it, so that a dead driver names the
// operation that killed it. It contains no oracle: it only runs mkdb and
// reports what came out.
package main

import (
	"bufio"
	"bytes"
	"encoding/json"
	"fmt"
	"hash/fnv"
	"io"
	"os"
	"path/filepath"
	"runtime"
	"runtime/debug"
	"sort"
	"strings"
	"sync"
	"syscall"
	"time"

	"github.com/mk6i/mkdb/engine"
	"github.com/mk6i/mkdb/sql"
	"github.com/mk6i/mkdb/storage"

	"verif/harness/internal/sparse"
	"verif/harness/proto"
)

var (
	out   *bufio.Writer
	sess  *engine.Session
	curOp int

	fetchMisses int64
)

func main() {
	if len(os.Args) < 2 {
		fmt.Fprintln(os.Stderr, "usage: vdriver script.jsonl")
		os.Exit(2)
	}
	fd, err := syscall.Dup(1)
	if err != nil {
		panic(err)
	}
	out = bufio.NewWriterSize(os.NewFile(uintptr(fd), "proto"), 1<<16)
	devnull, _ := os.OpenFile("/dev/null", os.O_WRONLY, 0)
	os.Stdout = devnull
	if os.Getenv("VDRIVER_KEEP_STDERR") == "" {
		os.Stderr = devnull
	}

	f, err := os.Open(os.Args[1])
	if err != nil {
		panic(err)
	}
	dec := json.NewDecoder(bufio.NewReaderSize(f, 1<<20))
	sess = &engine.Session{}
	if os.Getenv("VERIF_LOCK_THREAD") != "" {
		// every system call of the session comes from one thread, so that
		// "the n-th write call" means the same to strace (which counts per
		// thread) as to the history
		runtime.LockOSThread()
	}
	for {
		var op proto.Op
		if err := dec.Decode(&op); err == io.EOF {
			break
		} else if err != nil {
			panic(err)
		}
		fmt.Fprintf(out, "B %d\n", op.ID)
		out.Flush()
		curOp = op.ID
		res := run(&op)
		res.ID = op.ID
		b, err := json.Marshal(res)
		if err != nil {
			panic(err)
		}
		out.Write(b)
		out.WriteByte('\n')
		out.Flush()
	}
	out.Flush()
	os.Exit(0)
}

func topFrame(stack string) string {
	// first mkdb frame below the panic machinery
	lines := strings.Split(stack, "\n")
	for _, l := range lines {
		l = strings.TrimSpace(l)
		if strings.HasPrefix(l, "github.com/mk6i/mkdb/") {
			if i := strings.LastIndex(l, "("); i > 0 {
				l = l[:i]
			}
			return strings.TrimPrefix(l, "github.com/mk6i/mkdb/")
		}
	}
	return ""
}

type sentinel struct{ what string }

func run(op *proto.Op) (res *proto.Res) {
	res = &proto.Res{}
	defer func() {
		if r := recover(); r != nil {
			if s, ok := r.(sentinel); ok {
				res.Err = "SENTINEL:" + s.what
				return
			}
			st := string(debug.Stack())
			res.Panic = fmt.Sprint(r)
			res.Frame = topFrame(st)
			if len(st) > 3000 {
				st = st[:3000]
			}
			res.Stack = st
		}
	}()
	h, ok := ops[op.K]
	if !ok {
		res.Err = "DRIVER: unknown op " + op.K
		return
	}
	if err := h(op, res); err != nil {
		res.Err = err.Error()
		if res.Err == "" {
			res.Err = "error with empty text"
		}
	}
	return
}

var ops = map[string]func(*proto.Op, *proto.Res) error{}

var (
	imgMu        sync.Mutex
	timerFlushes int64 // flushes seen so far (guarded by imgMu)
	// an image ordered for the end of the next flush (timer-images mode)
	pendMu        sync.Mutex
	pendingImgDir string
)

func init() {
	ops["cfg"] = func(op *proto.Op, res *proto.Res) error {
		storage.VerifNoAutoFlush = op.N != 0
		storage.VerifCacheCap = op.M
		if op.S == "count-misses" {
			storage.VerifFetchMiss = func(uint64) { fetchMisses++ }
		}
		if op.S == "timer-images" {
			// the real flush timer runs; an image of the data directory is
			// never taken while a flush is writing (that state is C04's
			// business): the flush brackets and the image op share one mutex
			storage.VerifFlushBegin = func() { imgMu.Lock(); timerFlushes++ }
			storage.VerifFlushEnd = func() {
				// (the store lock is still held: the files are what this
				// flush made of them)
				pendMu.Lock()
				if pendingImgDir != "" {
					copyTree("data", pendingImgDir)
					pendingImgDir = ""
				}
				pendMu.Unlock()
				imgMu.Unlock()
			}
		}
		return nil
	}
	ops["stats"] = func(op *proto.Op, res *proto.Res) error {
		res.N = fetchMisses
		if sess.RelationService != nil {
			keys, dirty := storage.VerifCacheKeys(sess.RelationService)
			res.M = int64(len(keys))
			res.Count = dirty
		}
		return nil
	}
	ops["init"] = func(op *proto.Op, res *proto.Res) error {
		// count what recovery did (single goroutine: the timer is off in
		// InitStorage's own stores)
		var dirty, writes int64
		pm, pw := storage.VerifMarkDirty, storage.VerifPageWrite
		storage.VerifMarkDirty = func(off, lsn uint64) {
			dirty++
			if pm != nil {
				pm(off, lsn)
			}
		}
		storage.VerifPageWrite = func(off uint64) {
			writes++
			if pw != nil {
				pw(off)
			}
		}
		defer func() { storage.VerifMarkDirty, storage.VerifPageWrite = pm, pw }()
		err := storage.InitStorage()
		res.N, res.M = dirty, writes
		return err
	}
	ops["session"] = func(op *proto.Op, res *proto.Res) error { sess = &engine.Session{}; return nil }
	ops["sql"] = func(op *proto.Op, res *proto.Res) error { return sess.ExecQuery(string(op.SQL)) }
	ops["query"] = opQuery
	ops["stmt"] = func(op *proto.Op, res *proto.Res) error {
		err := opStmt(op, res)
		if op.Dir != "" && err == nil {
			// order an image for the end of the first flush from now on
			pendMu.Lock()
			pendingImgDir = op.Dir
			pendMu.Unlock()
		}
		return err
	}
	ops["flush"] = func(op *proto.Op, res *proto.Res) error {
		if sess.RelationService == nil {
			return fmt.Errorf("DRIVER: no relation service")
		}
		keys, dirty := storage.VerifCacheKeys(sess.RelationService)
		res.N, res.M = int64(dirty), int64(len(keys))
		return storage.VerifFlush(sess.RelationService)
	}
	ops["close"] = func(op *proto.Op, res *proto.Res) error { return sess.Close() }
	// open-nosync: select database S the way csvimport -disable-wal-fsync
	// opens it: no fsync after a log append
	ops["open-nosync"] = func(op *proto.Op, res *proto.Res) error {
		rs, err := storage.OpenRelation(op.S, false)
		if err != nil {
			return err
		}
		sess.CurDB, sess.RelationService = op.S, rs
		return nil
	}
	ops["dump"] = opDump
	ops["walk"] = opWalk
	ops["setlastkey"] = func(op *proto.Op, res *proto.Res) error {
		if sess.RelationService == nil {
			return fmt.Errorf("DRIVER: no relation service")
		}
		storage.VerifSetLastKey(sess.RelationService, uint32(op.N))
		return nil
	}
	ops["setnextfree"] = func(op *proto.Op, res *proto.Res) error {
		if sess.RelationService == nil {
			return fmt.Errorf("DRIVER: no relation service")
		}
		storage.VerifSetNextFree(sess.RelationService, uint64(op.N))
		return nil
	}
	ops["filesize"] = func(op *proto.Op, res *proto.Res) error {
		fi, err := os.Stat(op.S)
		if err != nil {
			return err
		}
		res.N = fi.Size()
		return nil
	}
	ops["hdr"] = func(op *proto.Op, res *proto.Res) error {
		if sess.RelationService == nil {
			return fmt.Errorf("DRIVER: no relation service")
		}
		res.Hdr = header()
		return nil
	}
	ops["image"] = func(op *proto.Op, res *proto.Res) error {
		if op.M > 0 {
			// the image was ordered when the statement before it returned
			// (Dir on the stmt op): it is taken by the flusher itself, at the
			// end of the first flush after that statement. Wait for it (at
			// most 600 ms); if no flush came, take the image now
			for i := 0; i < 600; i++ {
				pendMu.Lock()
				done := pendingImgDir == ""
				pendMu.Unlock()
				if done {
					return nil
				}
				time.Sleep(time.Millisecond)
			}
			pendMu.Lock()
			pendingImgDir = ""
			pendMu.Unlock()
		}
		imgMu.Lock()
		defer imgMu.Unlock()
		res.N = timerFlushes
		return copyTree("data", op.Dir)
	}
	ops["chdir"] = func(op *proto.Op, res *proto.Res) error { return os.Chdir(op.Dir) }
	ops["restore"] = func(op *proto.Op, res *proto.Res) error {
		// replace ./data with a copy of Dir
		if err := os.RemoveAll("data"); err != nil {
			return err
		}
		return copyTree(op.Dir, "data")
	}
	ops["truncate"] = func(op *proto.Op, res *proto.Res) error { return os.Truncate(op.S, int64(op.N)) }
	ops["sleep"] = func(op *proto.Op, res *proto.Res) error {
		time.Sleep(time.Duration(op.N) * time.Millisecond)
		return nil
	}
	ops["exit"] = func(op *proto.Op, res *proto.Res) error { out.Flush(); os.Exit(0); return nil }
	ops["kill"] = func(op *proto.Op, res *proto.Res) error {
		out.Flush()
		killSelf()
		return nil
	}
	// quiesce: wait until the background flusher has nothing left to write
	// (no dirty page in the cache on two looks 120 ms apart), so that an abrupt
	// end of the process right afterwards cannot land inside a page flush.
	ops["quiesce"] = func(op *proto.Op, res *proto.Res) error {
		if sess.RelationService == nil {
			return nil
		}
		clean := 0
		for i := 0; i < 50 && clean < 2; i++ {
			_, dirty := storage.VerifCacheKeys(sess.RelationService)
			if dirty == 0 {
				clean++
			} else {
				clean = 0
			}
			time.Sleep(120 * time.Millisecond)
		}
		res.N = int64(clean)
		return nil
	}
	ops["showdb"] = func(op *proto.Op, res *proto.Res) error {
		rows, _, err := engine.EvaluateShowDatabase(sql.ShowDatabase{})
		if err != nil {
			return err
		}
		for _, r := range rows {
			res.Strs = append(res.Strs, fmt.Sprint(r.Vals[0]))
		}
		return nil
	}
	ops["gc"] = func(op *proto.Op, res *proto.Res) error {
		var ms runtime.MemStats
		runtime.ReadMemStats(&ms)
		res.N = int64(ms.TotalAlloc)
		return nil
	}
}

func killSelf() {
	syscall.Kill(os.Getpid(), syscall.SIGKILL)
	select {}
}

func header() *proto.Header {
	lk, pt, nf, nl := storage.VerifHeader(sess.RelationService)
	return &proto.Header{LastKey: lk, PTRoot: pt, NextFree: nf, NextLSN: nl}
}

func toVal(v interface{}) proto.Val {
	switch x := v.(type) {
	case nil:
		return proto.Null()
	case int64:
		return proto.Int(x)
	case string:
		return proto.Str(x)
	case bool:
		return proto.Bool(x)
	}
	return proto.Val{K: 'x', S: fmt.Sprintf("%T:%v", v, v)}
}

func fromVal(v proto.Val) interface{} {
	switch v.K {
	case 'i':
		return v.I
	case 's':
		return v.S
	case 'b':
		return v.B
	}
	return nil
}

func fillRows(res *proto.Res, rows []*storage.Row, fields []*storage.Field) {
	for _, f := range fields {
		res.Cols = append(res.Cols, fmt.Sprint(f.Column))
		res.Quals = append(res.Quals, f.TableID)
	}
	res.Rows = convRows(rows)
}

func convRows(rows []*storage.Row) []proto.Row {
	outRows := make([]proto.Row, 0, len(rows))
	for _, r := range rows {
		if r == nil {
			outRows = append(outRows, proto.Row{ID: 0, Vals: []proto.Val{{K: 'x', S: "nil-row"}}})
			continue
		}
		pr := proto.Row{ID: r.RowID, Vals: make([]proto.Val, len(r.Vals))}
		for i, v := range r.Vals {
			pr.Vals[i] = toVal(v)
		}
		outRows = append(outRows, pr)
	}
	return outRows
}

func opQuery(op *proto.Op, res *proto.Res) error {
	st, err := engine.VerifParseSQL(string(op.SQL))
	if err != nil {
		return fmt.Errorf("PARSE: %w", err)
	}
	sel, ok := st.(sql.Select)
	if !ok {
		return fmt.Errorf("DRIVER: not a select: %T", st)
	}
	if sess.RelationService == nil && len(sel.TableExpression.FromClause) > 0 {
		return fmt.Errorf("DRIVER: no relation service")
	}
	rows, fields, err := engine.EvaluateSelect(sel, sess.RelationService)
	if err != nil {
		return err
	}
	fillRows(res, rows, fields)
	return nil
}

func selectAll(table string) (*proto.TableDump, error) {
	td := &proto.TableDump{Name: table}
	st, err := engine.VerifParseSQL("SELECT * FROM " + table)
	if err != nil {
		return td, err
	}
	rows, fields, err := engine.EvaluateSelect(st.(sql.Select), sess.RelationService)
	if err != nil {
		return td, err
	}
	for _, f := range fields {
		td.Cols = append(td.Cols, fmt.Sprint(f.Column))
	}
	td.Rows = convRows(rows)
	return td, nil
}

// opDump returns SELECT * of sys_pages, sys_schema and every table listed in
// sys_pages, through the engine's own SELECT path.
func opDump(op *proto.Op, res *proto.Res) error {
	if sess.RelationService == nil {
		return fmt.Errorf("DRIVER: no relation service")
	}
	pt, err := selectAll("sys_pages")
	if err != nil {
		return fmt.Errorf("sys_pages: %w", err)
	}
	res.Tables = append(res.Tables, *pt)
	seen := map[string]bool{"sys_pages": true}
	for _, r := range pt.Rows {
		if len(r.Vals) == 0 || r.Vals[0].K != 's' {
			continue
		}
		name := r.Vals[0].S
		if seen[name] {
			continue
		}
		seen[name] = true
		// a table that cannot be read (error or panic) is reported as such;
		// the oracle decides whether that table matters
		td := func() (td *proto.TableDump) {
			defer func() {
				if r := recover(); r != nil {
					td = &proto.TableDump{Name: name, Err: fmt.Sprintf("PANIC: %v [%s]", r, topFrame(string(debug.Stack())))}
				}
			}()
			td, err := selectAll(name)
			if err != nil {
				td.Err = err.Error()
			}
			return td
		}()
		res.Tables = append(res.Tables, *td)
	}
	return nil
}

func hash64(b []byte) uint64 {
	h := fnv.New64a()
	h.Write(b)
	return h.Sum64()
}

func convPage(p *storage.VerifPage) proto.Page {
	pg := proto.Page{
		Off: p.Offset, Leaf: p.Leaf, LSN: p.LSN, Dirty: p.Dirty, Cached: p.Cached,
		Keys: p.Keys, Deleted: p.Deleted, Children: p.Children, Right: p.Right,
		HasL: p.HasLSib, HasR: p.HasRSib, LSib: p.LSib, RSib: p.RSib, Stored: p.Stored,
	}
	for i, v := range p.Vals {
		pg.ValLens = append(pg.ValLens, len(v))
		pg.ValHash = append(pg.ValHash, hash64(v))
		if int(p.ValSizes[i]) != len(v) {
			pg.Err = fmt.Sprintf("cell %d: valueSize %d but %d bytes", i, p.ValSizes[i], len(v))
		}
	}
	return pg
}

// opWalk dumps every page reachable from every table root (peeking: no cache
// recency change, no cache insertion), then runs the engine's own point lookup
// for every key found in a leaf, and its right-to-left scan.
func opWalk(op *proto.Op, res *proto.Res) error {
	rs := sess.RelationService
	if rs == nil {
		return fmt.Errorf("DRIVER: no relation service")
	}
	res.Hdr = header()
	type troot struct {
		name string
		root uint64
	}
	roots := []troot{{"sys_pages", res.Hdr.PTRoot}}
	// read the catalog with peeks only (no engine traversal: it could loop on
	// a malformed tree)
	ptSchema := &storage.Relation{Fields: []storage.FieldDef{{Name: "table_name", DataType: storage.TypeVarchar, Len: 255}, {Name: "file_offset", DataType: storage.TypeBigInt}}}
	{
		queue := []uint64{res.Hdr.PTRoot}
		seen := map[uint64]bool{}
		type ent struct {
			key  uint32
			name string
			off  uint64
		}
		var ents []ent
		for len(queue) > 0 && len(seen) < 100000 {
			off := queue[0]
			queue = queue[1:]
			if seen[off] {
				continue
			}
			seen[off] = true
			p, err := storage.VerifPeek(rs, off)
			if err != nil {
				return fmt.Errorf("catalog page %d: %w", off, err)
			}
			if !p.Leaf {
				queue = append(queue, p.Children...)
				queue = append(queue, p.Right)
				continue
			}
			for i, v := range p.Vals {
				if p.Deleted[i] {
					continue
				}
				tu := storage.Tuple{Relation: ptSchema, Vals: map[string]interface{}{}}
				if err := tu.Decode(bytes.NewBuffer(v)); err != nil {
					return fmt.Errorf("catalog row: %w", err)
				}
				name, _ := tu.Vals["table_name"].(string)
				o, _ := tu.Vals["file_offset"].(int64)
				ents = append(ents, ent{p.Keys[i], name, uint64(o)})
			}
		}
		sort.Slice(ents, func(i, j int) bool { return ents[i].key < ents[j].key })
		for _, e := range ents {
			if e.name != "sys_pages" {
				roots = append(roots, troot{e.name, e.off})
			}
		}
	}
	limit := op.N
	if limit == 0 {
		limit = 1 << 20
	}
	for _, tr := range roots {
		t := proto.Tree{Table: tr.name, Root: tr.root}
		queue := []uint64{tr.root}
		visited := 0
		for len(queue) > 0 && visited < limit {
			off := queue[0]
			queue = queue[1:]
			visited++
			p, err := storage.VerifPeek(rs, off)
			if err != nil {
				t.Pages = append(t.Pages, proto.Page{Off: off, Err: err.Error()})
				continue
			}
			pg := convPage(p)
			if op.S == "filecmp" && p.Cached && !p.Dirty {
				// C12 on real pages: a clean cached node must equal what the
				// file holds for it
				if fp, ferr := storage.VerifPeekFile(rs, off); ferr != nil {
					pg.Err = "filecmp: cannot decode the page from the file: " + ferr.Error()
				} else if a, b := logicalPage(convPage(p)), logicalPage(convPage(fp)); a != b {
					pg.Err = "filecmp: cached node and file page differ: cache{" + a + "} file{" + b + "}"
				} else {
					res.Count++
				}
			}
			if p.Offset != off {
				pg.Err = fmt.Sprintf("page fetched at %d says it lives at %d", off, p.Offset)
				pg.Off = off
			}
			t.Pages = append(t.Pages, pg)
			if !p.Leaf {
				queue = append(queue, p.Children...)
				queue = append(queue, p.Right)
			}
		}
		t.NoLookups = op.M != 0
		// the engine's own traversals can loop forever on a malformed tree
		// (e.g. a child pointer to page 0): run them only on trees whose
		// dump is locally sane; the orchestrator judges the dump either way
		sane := true
		seenOff := map[uint64]bool{}
		for _, pg := range t.Pages {
			if pg.Err != "" || seenOff[pg.Off] || pg.Off == 0 || (!pg.Leaf && len(pg.Keys) == 0) {
				sane = false
			}
			seenOff[pg.Off] = true
			if !pg.Leaf {
				for _, ch := range append(append([]uint64(nil), pg.Children...), pg.Right) {
					if ch == 0 || ch%4096 != 0 {
						sane = false
					}
				}
			}
			if pg.Leaf && ((pg.HasR && pg.RSib == pg.Off) || (pg.HasL && pg.LSib == pg.Off)) {
				sane = false
			}
		}
		if !sane {
			t.NoLookups = true
		}
		if op.M == 0 && sane { // point lookups + reverse scan
			for _, pg := range t.Pages {
				if !pg.Leaf || pg.Err != "" {
					continue
				}
				for i, k := range pg.Keys {
					found, _, err := storage.VerifFindKey(rs, tr.root, k)
					if err != nil {
						t.Err = "findCell: " + err.Error()
						break
					}
					if pg.Deleted[i] && found {
						t.LookupGhost = append(t.LookupGhost, k)
					}
					if !pg.Deleted[i] && !found {
						t.LookupMiss = append(t.LookupMiss, k)
					}
				}
			}
			sl, err := storage.VerifScanLeft(rs, tr.root)
			if err != nil {
				t.Err = "scanLeft: " + err.Error()
			}
			t.ScanLeft = sl
		}
		res.Trees = append(res.Trees, t)
	}
	return nil
}

func copyTree(src, dst string) error {
	return filepath.Walk(src, func(p string, info os.FileInfo, err error) error {
		if err != nil {
			return err
		}
		rel, _ := filepath.Rel(src, p)
		target := filepath.Join(dst, rel)
		if info.IsDir() {
			return os.MkdirAll(target, 0755)
		}
		return copyFile(p, target)
	})
}

func copyFile(src, dst string) error { return sparse.CopyFile(src, dst) }

// logicalPage renders the logical content of a page dump.
func logicalPage(p proto.Page) string {
	s := fmt.Sprintf("leaf=%v off=%d lsn=%d", p.Leaf, p.Off, p.LSN)
	if p.Leaf {
		s += fmt.Sprintf(" hasL=%v hasR=%v", p.HasL, p.HasR)
		if p.HasL {
			s += fmt.Sprintf(" l=%d", p.LSib)
		}
		if p.HasR {
			s += fmt.Sprintf(" r=%d", p.RSib)
		}
		for i, k := range p.Keys {
			s += fmt.Sprintf(" (%d,%v,%d,%x)", k, p.Deleted[i], p.ValLens[i], p.ValHash[i])
		}
	} else {
		s += fmt.Sprintf(" right=%d", p.Right)
		for i, k := range p.Keys {
			s += fmt.Sprintf(" (%d->%d)", k, p.Children[i])
		}
	}
	return s
}
