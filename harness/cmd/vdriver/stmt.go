package main

import (
	"fmt"

	"github.com/mk6i/mkdb/engine"
	"github.com/mk6i/mkdb/sql"

	"verif/harness/proto"
)

var cmpTok = map[string]sql.TokenType{
	"=": sql.EQ, "!=": sql.NEQ, "<": sql.LT, "<=": sql.LTE, ">": sql.GT, ">=": sql.GTE,
}

func convOperand(o *proto.Operand) interface{} {
	if o.Lit != nil {
		return fromVal(*o.Lit)
	}
	return sql.ColumnReference{Qualifier: o.Qual, ColumnName: o.Col}
}

// convCond builds the tree shape the parser builds: OR and AND nest to the
// right, the left operand of AND is a comparison.
func convCond(c *proto.Cond) (interface{}, error) {
	switch c.Op {
	case "or":
		l, err := convCond(c.L)
		if err != nil {
			return nil, err
		}
		r, err := convCond(c.R)
		if err != nil {
			return nil, err
		}
		return sql.SearchCondition{LHS: l, RHS: r}, nil
	case "and":
		l, err := convCond(c.L)
		if err != nil {
			return nil, err
		}
		lp, ok := l.(sql.Predicate)
		if !ok {
			return nil, fmt.Errorf("DRIVER: left operand of AND must be a comparison")
		}
		r, err := convCond(c.R)
		if err != nil {
			return nil, err
		}
		return sql.BooleanTerm{LHS: lp, RHS: r}, nil
	}
	tok, ok := cmpTok[c.Op]
	if !ok {
		return nil, fmt.Errorf("DRIVER: bad operator %q", c.Op)
	}
	return sql.Predicate{ComparisonPredicate: sql.ComparisonPredicate{
		LHS: convOperand(c.LHS), CompOp: tok, RHS: convOperand(c.RHS),
	}}, nil
}

func rawVal(kind string, v proto.Val) interface{} {
	switch kind {
	case "":
		return fromVal(v)
	case "int":
		return int(v.I)
	case "int32":
		return int32(v.I)
	case "uint64":
		return uint64(v.I)
	case "float":
		return float64(v.I)
	case "bytes":
		return []byte(v.S)
	}
	return fromVal(v)
}

func opStmt(op *proto.Op, res *proto.Res) error {
	s := op.Stmt
	if s == nil {
		return fmt.Errorf("DRIVER: no stmt")
	}
	if sess.RelationService == nil {
		return fmt.Errorf("DRIVER: no relation service")
	}
	rm := sess.RelationService
	switch s.Kind {
	case "create":
		ct := sql.CreateTable{Name: s.Table}
		for _, d := range s.Defs {
			cd := sql.ColumnDefinition{Name: d.Name}
			switch d.Type {
			case "int":
				cd.DataType = sql.NumericType{}
			case "bigint":
				cd.DataType = sql.BigIntType{}
			case "varchar":
				cd.DataType = sql.CharacterStringType{Len: d.Len, Type: sql.T_VARCHAR}
			case "boolean":
				cd.DataType = sql.BooleanType{}
			default:
				return fmt.Errorf("DRIVER: bad type %q", d.Type)
			}
			ct.Elements = append(ct.Elements, sql.TableElement{ColumnDefinition: cd})
		}
		return engine.EvaluateCreateTable(ct, rm)
	case "insert":
		var tvc sql.TableValueConstructor
		for ri, row := range s.Rows {
			var rvc sql.RowValueConstructor
			for ci, v := range row {
				kind := ""
				if ri == 0 && ci < len(s.RawKinds) {
					kind = s.RawKinds[ci]
				}
				rvc.RowValueConstructorList = append(rvc.RowValueConstructorList, rawVal(kind, v))
			}
			tvc.TableValueConstructorList = append(tvc.TableValueConstructorList, rvc)
		}
		q := sql.InsertStatement{
			TableName: s.Table,
			InsertColumnsAndSource: sql.InsertColumnsAndSource{
				InsertColumnList: sql.InsertColumnList{ColumnNames: s.Cols},
				QueryExpression:  tvc,
			},
		}
		n, err := engine.EvaluateInsert(q, rm)
		res.Count = n
		return err
	case "update":
		q := sql.UpdateStatementSearched{TableName: s.Table}
		for i, set := range s.Sets {
			kind := ""
			if i < len(s.RawKinds) {
				kind = s.RawKinds[i]
			}
			q.Set = append(q.Set, sql.SetClause{ObjectColumn: set.Col, UpdateSource: rawVal(kind, set.Val)})
		}
		if s.Where != nil {
			c, err := convCond(s.Where)
			if err != nil {
				return err
			}
			q.Where = sql.WhereClause{SearchCondition: c}
		}
		return engine.EvaluateUpdate(q, rm)
	case "delete":
		q := sql.DeleteStatementSearched{TableName: s.Table}
		if s.Where != nil {
			c, err := convCond(s.Where)
			if err != nil {
				return err
			}
			q.WhereClause = sql.WhereClause{SearchCondition: c}
		}
		n, err := engine.EvaluateDelete(q, rm)
		res.Count = n
		return err
	}
	return fmt.Errorf("DRIVER: bad stmt kind %q", s.Kind)
}
