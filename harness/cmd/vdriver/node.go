package main

import (
	"encoding/json"
	"fmt"
	"path/filepath"
	"sync"

	"github.com/mk6i/mkdb/storage"

	"verif/harness/internal/nodespec"
	"verif/harness/proto"
)

type nodeOut struct {
	BuildErr  string      `json:"buildErr,omitempty"`
	Before    *proto.Page `json:"before,omitempty"`
	EncLen    int         `json:"encLen"`
	EncErr    string      `json:"encErr,omitempty"`
	Decoded   *proto.Page `json:"decoded,omitempty"`
	DecErr    string      `json:"decErr,omitempty"`
	Stored    *proto.Page `json:"stored,omitempty"`
	StoreErr  string      `json:"storeErr,omitempty"`
	Reencoded *proto.Page `json:"reencoded,omitempty"`
	ReencLen  int         `json:"reencLen"`
	ReencErr  string      `json:"reencErr,omitempty"`
}

func pg(p *storage.VerifPage) *proto.Page {
	x := convPage(p)
	return &x
}

func init() {
	// node: build a node from a spec with the engine's primitives, then
	// encode / decode / store round trip; report what came out.
	ops["node"] = func(op *proto.Op, res *proto.Res) error {
		var specs []nodespec.Spec
		if err := json.Unmarshal(op.Raw, &specs); err != nil {
			return err
		}
		outs := make([]nodeOut, len(specs))
		if w := op.N; w > 1 {
			// several goroutines, each with nodes and store files of its
			// own, as several open databases flush side by side
			var wg sync.WaitGroup
			for g := 0; g < w; g++ {
				wg.Add(1)
				go func(g int) {
					defer wg.Done()
					for i := g; i < len(specs); i += w {
						outs[i] = runNode(specs[i], 1000*(g+1)+i%8)
					}
				}(g)
			}
			wg.Wait()
		} else {
			for i, sp := range specs {
				outs[i] = runNode(sp, i%8)
			}
		}
		b, err := json.Marshal(outs)
		res.Raw = b
		return err
	}
}

func runNode(sp nodespec.Spec, idx int) (o nodeOut) {
	defer func() {
		if r := recover(); r != nil {
			o.BuildErr = fmt.Sprintf("panic: %v", r)
		}
	}()
	n := storage.VerifNewNode(sp.Leaf, sp.Off)
	for _, a := range sp.Acts {
		var err error
		switch a.A {
		case "ins":
			err = n.InsertLeaf(a.Key, nodespec.Value(a.VSeed, a.VLen))
		case "upd":
			err = n.UpdateCell(a.Key, nodespec.Value(a.VSeed, a.VLen))
		case "del":
			if !n.SetDeleted(a.Key) {
				err = fmt.Errorf("del: key %d not found", a.Key)
			}
		case "dirty":
			n.MarkDirty(a.LSN)
		case "sibs":
			n.SetSibs(a.HasL, a.HasR, a.L, a.R)
		case "appendInternal":
			err = n.AppendInternal(a.Key, a.Child)
		case "right":
			n.SetRight(a.Child)
		case "split":
			nn, _, e := n.Split(a.Off)
			err = e
			if a.Keep == "right" {
				n = nn
			}
		default:
			err = fmt.Errorf("bad act %q", a.A)
		}
		if err != nil {
			o.BuildErr = a.A + ": " + err.Error()
			return
		}
	}
	o.Before = pg(n.Dump())
	b, err := n.Encode()
	if err != nil {
		o.EncErr = err.Error()
		return
	}
	o.EncLen = len(b)
	if d, err := storage.VerifDecodePage(b); err != nil {
		o.DecErr = err.Error()
	} else {
		o.Decoded = pg(d)
	}
	if b2, err := storage.VerifReencode(b); err != nil {
		o.ReencErr = err.Error()
	} else {
		o.ReencLen = len(b2)
		if d, err := storage.VerifDecodePage(b2); err != nil {
			o.ReencErr = err.Error()
		} else {
			o.Reencoded = pg(d)
		}
	}
	if sp.Off < 1<<24 {
		if d, err := storage.VerifStoreRoundTrip(filepath.Join(".", fmt.Sprintf("node-%d.tbl", idx)), n); err != nil {
			o.StoreErr = err.Error()
		} else {
			o.Stored = pg(d)
		}
	}
	return
}
