package main

import (
	"encoding/binary"
	"fmt"
	"os"
	"path/filepath"

	"github.com/mk6i/mkdb/storage"

	"verif/harness/proto"
)

// Crash-point hooks. While armed, the driver copies data/ to a fresh
// directory immediately BEFORE every hooked write: with the timer off and a
// single goroutine this is byte for byte what a kill -9 at that instant
// leaves behind.
var arm struct {
	mode    string // "wal" or "page"
	dir     string
	db      string
	n       int
	rec     int
	flush   int
	inFl    bool
	synced  int64
	events  []proto.Event
	err     string
	killAt  int // > 0: SIGKILL self at the n-th event instead of imaging
	skipped int
}

func walSize() int64 {
	st, err := os.Stat(filepath.Join("data", arm.db, "wal"))
	if err != nil {
		return -1
	}
	return st.Size()
}

func diskNextFree() uint64 {
	f, err := os.Open(filepath.Join("data", arm.db, "tbl"))
	if err != nil {
		return 0
	}
	defer f.Close()
	b := make([]byte, 28)
	if _, err := f.ReadAt(b, 0); err != nil {
		return 0
	}
	return binary.LittleEndian.Uint64(b[12:20])
}

func armImage(kind string, off uint64) {
	arm.n++
	ev := proto.Event{Seq: arm.n, K: kind, Off: off, Stmt: arm.rec, G: int64(curOp)}
	if arm.killAt > 0 {
		if arm.n == arm.killAt {
			out.Flush()
			killSelf()
		}
		return
	}
	if arm.mode == "wal" && arm.n > 48 && arm.n%8 != 0 && kind != "sync" {
		// a statement that issues hundreds of log writes: the first 48 crash
		// points, then every 8th and every fsync (each image is a copy of the
		// database)
		arm.skipped++
		return
	}
	if arm.mode == "wal" {
		ev.Off = uint64(walSize())
		ev.A = uint64(arm.synced)
	} else {
		ev.Stmt = arm.flush
	}
	dst := filepath.Join(arm.dir, fmt.Sprintf("e%d", arm.n))
	if err := copyTree("data", filepath.Join(dst, "data")); err != nil && arm.err == "" {
		arm.err = err.Error()
	}
	if arm.mode == "wal" && int64(ev.Off) > arm.synced {
		// second cut: the log as of the last fsync
		dstf := filepath.Join(arm.dir, fmt.Sprintf("e%df", arm.n))
		if err := copyTree("data", filepath.Join(dstf, "data")); err != nil && arm.err == "" {
			arm.err = err.Error()
		}
		if err := os.Truncate(filepath.Join(dstf, "data", arm.db, "wal"), arm.synced); err != nil && arm.err == "" {
			arm.err = err.Error()
		}
	}
	arm.events = append(arm.events, ev)
}

func init() {
	// arm: S = mode, Dir = image directory, DB = database, N = kill-at (0: image)
	ops["arm"] = func(op *proto.Op, res *proto.Res) error {
		arm.mode, arm.dir, arm.db, arm.killAt = op.S, op.Dir, op.DB, op.N
		arm.n, arm.rec, arm.flush, arm.events, arm.err = 0, 0, 0, nil, ""
		switch op.S {
		case "wal":
			arm.synced = walSize()
			storage.VerifWalWrite = func(kind int, n int) {
				if kind == 0 {
					armImage("len", 0)
				} else {
					armImage("body", 0)
				}
			}
			storage.VerifWalSync = func() {
				armImage("sync", 0)
				arm.synced = walSize()
				arm.rec++
			}
		case "page":
			storage.VerifFlushBegin = func() {
				arm.flush++
				arm.inFl = true
				arm.events = append(arm.events, proto.Event{Seq: 0, K: "flushBegin", Stmt: arm.flush, A: diskNextFree(), G: int64(curOp)})
			}
			storage.VerifFlushEnd = func() {
				arm.inFl = false
				arm.events = append(arm.events, proto.Event{Seq: 0, K: "flushEnd", Stmt: arm.flush})
			}
			storage.VerifPageWrite = func(off uint64) {
				if arm.inFl {
					armImage("page", off)
				}
			}
			storage.VerifHeaderWrite = func() {
				if arm.inFl {
					armImage("header", 0)
				}
			}
		default:
			return fmt.Errorf("DRIVER: bad arm mode %q", op.S)
		}
		return nil
	}
	ops["disarm"] = func(op *proto.Op, res *proto.Res) error {
		storage.VerifWalWrite, storage.VerifWalSync = nil, nil
		storage.VerifFlushBegin, storage.VerifFlushEnd = nil, nil
		storage.VerifPageWrite, storage.VerifHeaderWrite = nil, nil
		res.Events = arm.events
		arm.events = nil
		if arm.err != "" {
			return fmt.Errorf("DRIVER: imaging failed: %s", arm.err)
		}
		return nil
	}
}
