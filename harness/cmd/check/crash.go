package main

import (
	"fmt"
	"os"
	"path/filepath"
	"regexp"
	"strings"
	"time"

	"verif/harness/internal/core"
	"verif/harness/internal/gen"
	"verif/harness/internal/model"
	"verif/harness/proto"
)

// crashJob is one crash image (a directory holding data/) together with the
// states the property allows after recovery.
type crashJob struct {
	dir      string
	cands    []*model.DB // acceptable post-recovery states, in preference order
	label    string      // coverage label
	cont     int         // continuation statements (0: none)
	chain    int         // further crash/recover cycles inside the continuation
	seed     uint64
	replay   interface{}
	sigMap   func(j *crashJob, sig string) string
	classSig string // when set, every failure of this job is reported under this one signature
	ignore   string // table whose CREATE was in flight at the crash: not judged
	noSecond bool   // skip the second recovery (C04 judges start-up and contents only)
	real     bool   // produced by a real SIGKILL
	db       string // the database the history ran in, as written in SQL (default d1)
	// results
	matched   int   // index of the matching candidate, -1 none
	failed    bool  // recovery stage failed
	failedB   bool  // continuation stage failed
	recDirty  int64 // pages marked dirty by the first recovery
	recWrites int64
	dump      []proto.TableDump
}

var digits = regexp.MustCompile(`[0-9]+`)

func errClass(s string) string {
	s = digits.ReplaceAllString(s, "N")
	if len(s) > 70 {
		s = s[:70]
	}
	return s
}

func (j *crashJob) use() proto.Text {
	if j.db == "" {
		return "USE d1"
	}
	return proto.Text("USE " + j.db)
}

func stageA(j *crashJob) block {
	var s script
	s.add(proto.Op{K: "chdir", Dir: j.dir})
	s.cfg(true, 0)
	s.k("init")    // 2
	s.k("session") // 3
	s.add(proto.Op{K: "sql", SQL: j.use()})
	s.k("dump") // 5
	if !j.noSecond {
		s.k("session")
		s.k("init") // 7
		s.k("session")
		s.add(proto.Op{K: "sql", SQL: j.use()})
		s.k("dump") // 10
	}
	return block{ops: s.ops}
}

// verifyCrashJobs recovers every image in fresh driver processes and judges
// the outcome. It reports violations on c under property prop.
func verifyCrashJobs(c *core.Ctx, prop, drv, cwd string, jobs []*crashJob) {
	if len(jobs) == 0 {
		return
	}
	blocks := make([]block, len(jobs))
	for i, j := range jobs {
		blocks[i] = stageA(j)
		j.matched = -1
		if j.seed%5 == 0 {
			// directories without a data file next to the database (a backup
			// copy, lost+found): start-up has to skip them and go on to the
			// databases, in whatever order the directory lists them
			for _, d := range []string{"0backup", "lost+found", "zz"} {
				os.MkdirAll(filepath.Join(j.dir, "data", d), 0755)
			}
			c.Count("images_with_stray_directories", 1)
		}
	}
	outs := runBlocks(drv, cwd, blocks, 20*time.Second)
	var stageB []*crashJob
	for i, j := range jobs {
		o := outs[i]
		c.Count("images_verified", 1)
		c.Count("images_"+j.label, 1)
		if o.died {
			j.failed = true
			if o.timedOut {
				c.Inconclusive("watchdog", "recovery of image "+j.label+" exceeded the watchdog")
				continue
			}
			opk := "?"
			if o.diedAt < len(blocks[i].ops) {
				opk = blocks[i].ops[o.diedAt].K
			}
			c.Violation(j.sig(prop+":recovery-crashed-process:"+errClass(core.FatalTail(o.stderr))), fmt.Sprintf("[%s] driver process died during %s after the crash: %s", j.label, opk, core.FatalTail(o.stderr)), j.replay)
			continue
		}
		bad := false
		for k, r := range o.res {
			if r.Panic != "" {
				c.Violation(j.sig(prop+":recovery-panic:"+r.Frame), fmt.Sprintf("[%s] %s panicked: %s", j.label, blocks[i].ops[k].K, r.Panic), j.replay)
				bad = true
				break
			}
			if r.Err != "" {
				what := blocks[i].ops[k].K
				phase := "recovery"
				if k > 5 {
					phase = "second-recovery"
				}
				c.Violation(j.sig(prop+":"+phase+"-failed:"+what+":"+errClass(r.Err)), fmt.Sprintf("[%s] %s after the crash returned: %s", j.label, what, r.Err), j.replay)
				bad = true
				break
			}
		}
		if bad {
			j.failed = true
			continue
		}
		j.recDirty, j.recWrites = o.res[2].N, o.res[2].M
		if j.recDirty > 0 {
			c.Count("recoveries_that_replayed", 1)
		} else {
			c.Count("recoveries_nothing_to_replay", 1)
		}
		d1 := o.res[5].Tables
		if j.ignore != "" {
			d1 = model.StripTable(d1, j.ignore)
		}
		j.dump = d1
		var lastDiff *model.Diff
		for ci, cand := range j.cands {
			df := cand.CheckDump(prop+":after-recovery", d1, nil, false)
			if df == nil {
				j.matched = ci
				break
			}
			lastDiff = df
		}
		if j.matched < 0 {
			j.failed = true
			what := lastDiff.What
			if len(j.cands) > 1 {
				what = fmt.Sprintf("state matches none of the %d allowed states; against the full statement: %s", len(j.cands), what)
			}
			c.Violation(j.sig(lastDiff.Sig), fmt.Sprintf("[%s] %s", j.label, what), j.replay)
			continue
		}
		if !j.noSecond {
			d2 := o.res[10].Tables
			if j.ignore != "" {
				d2 = model.StripTable(d2, j.ignore)
			}
			if df := j.cands[j.matched].CheckDump(prop+":after-second-recovery", d2, nil, false); df != nil {
				j.failed = true
				c.Violation(j.sig(df.Sig), fmt.Sprintf("[%s] recovery run a second time changed the state: %s", j.label, df.What), j.replay)
				continue
			}
			c.Count("second_recoveries_checked", 1)
		}
		if j.cont > 0 {
			stageB = append(stageB, j)
		}
	}
	if len(stageB) == 0 {
		return
	}
	// continuation
	type contMeta struct {
		kind string
		stmt *proto.Stmt
	}
	bblocks := make([]block, len(stageB))
	metas := make([][]contMeta, len(stageB))
	for i, j := range stageB {
		r := core.NewRand(j.seed)
		h := gen.HistFrom(r, j.cands[j.matched], false)
		var s script
		var mt []contMeta
		add := func(op proto.Op, m contMeta) { s.add(op); mt = append(mt, m) }
		add(proto.Op{K: "chdir", Dir: j.dir}, contMeta{kind: "other"})
		add(proto.Op{K: "cfg", N: 1}, contMeta{kind: "other"})
		add(proto.Op{K: "init"}, contMeta{kind: "init"})
		add(proto.Op{K: "session"}, contMeta{kind: "other"})
		add(proto.Op{K: "sql", SQL: j.use()}, contMeta{kind: "use"})
		cycles := j.chain + 1
		for cy := 0; cy < cycles; cy++ {
			for k := 0; k < j.cont; k++ {
				st := h.Next()
				add(proto.Op{K: "stmt", Stmt: st}, contMeta{kind: "stmt", stmt: st})
				if r.Chance(1, 3) {
					add(proto.Op{K: "flush"}, contMeta{kind: "other"})
				}
				add(proto.Op{K: "dump"}, contMeta{kind: "dump"})
			}
			if cy < cycles-1 {
				// crash again: drop every in-memory structure, recover
				add(proto.Op{K: "session"}, contMeta{kind: "other"})
				add(proto.Op{K: "init"}, contMeta{kind: "init"})
				add(proto.Op{K: "session"}, contMeta{kind: "other"})
				add(proto.Op{K: "sql", SQL: j.use()}, contMeta{kind: "use"})
				add(proto.Op{K: "dump"}, contMeta{kind: "dump"})
			}
		}
		bblocks[i] = block{ops: s.ops}
		metas[i] = mt
	}
	bouts := runBlocks(drv, cwd, bblocks, 30*time.Second)
	for i, j := range stageB {
		o := bouts[i]
		m := j.cands[j.matched].Clone()
		grave := model.Graveyard{}
		ok := true
		cycle := 0
		for k, r := range o.res {
			mt := metas[i][k]
			if r.Panic != "" {
				c.Violation(j.sig(prop+":continuation:panic:"+r.Frame), fmt.Sprintf("[%s] %s after recovery panicked: %s", j.label, mt.kind, r.Panic), j.replay)
				ok = false
				break
			}
			switch mt.kind {
			case "stmt":
				if r.Err != "" {
					c.Violation(j.sig(prop+":continuation:statement-failed:"+mt.stmt.Kind+":"+errClass(r.Err)), fmt.Sprintf("[%s] after recovery, %s returned: %s", j.label, clip(model.RenderStmt(mt.stmt, model.Plain), 200), r.Err), j.replay)
					ok = false
					break
				}
				if f, _, _, err := m.Apply(mt.stmt); f != "" || err != nil {
					c.Inconclusive("model", fmt.Sprintf("continuation statement rejected by model: %s %v", f, err))
					ok = false
				}
				c.Count("continuation_statements", 1)
			case "dump":
				if r.Err != "" {
					c.Violation(j.sig(prop+":continuation:dump-failed:"+errClass(r.Err)), fmt.Sprintf("[%s] %s", j.label, r.Err), j.replay)
					ok = false
					break
				}
				if df := m.CheckDump(prop+":continuation", r.Tables, grave, true); df != nil {
					c.Violation(j.sig(df.Sig), fmt.Sprintf("[%s] after recovery (cycle %d): %s", j.label, cycle, df.What), j.replay)
					ok = false
				}
			case "init", "use":
				if mt.kind == "init" && k > 2 {
					cycle++
					c.Count("chained_recoveries", 1)
				}
				if r.Err != "" {
					c.Violation(j.sig(prop+":continuation:"+mt.kind+"-failed:"+errClass(r.Err)), fmt.Sprintf("[%s] %s (cycle %d) returned: %s", j.label, mt.kind, cycle, r.Err), j.replay)
					ok = false
				}
			default:
				if r.Err != "" {
					c.Violation(j.sig(prop+":continuation:op-failed:"+errClass(r.Err)), fmt.Sprintf("[%s] %s returned: %s", j.label, bblocks[i].ops[k].K, r.Err), j.replay)
					ok = false
				}
			}
			if !ok {
				break
			}
		}
		if ok && o.died {
			if o.timedOut {
				c.Inconclusive("watchdog", "continuation exceeded the watchdog")
			} else {
				c.Violation(j.sig(prop+":continuation:process-died:"+errClass(core.FatalTail(o.stderr))), fmt.Sprintf("[%s] driver died during the continuation: %s", j.label, core.FatalTail(o.stderr)), j.replay)
			}
			ok = false
		}
		if ok {
			c.Count("continuations_ok", 1)
			if cycle >= 2 {
				c.Count("chains_of_3_cycles", 1)
			}
		} else {
			j.failedB = true
		}
	}
}

func (j *crashJob) sig(s string) string {
	if j.classSig != "" {
		return j.classSig
	}
	if j.sigMap != nil {
		return j.sigMap(j, s)
	}
	return s
}

func verifyCrashJobsPrefixed(c *core.Ctx, prop, drv, cwd string, jobs []*crashJob, f func(j *crashJob, sig string) string) {
	for _, j := range jobs {
		j.sigMap = f
	}
	verifyCrashJobs(c, prop, drv, cwd, jobs)
}

func imgDir(caseDir string, i int, tag string) string {
	return filepath.Join(caseDir, fmt.Sprintf("img-%s%d", tag, i))
}

func dumpsEqual(a, b []proto.TableDump) bool {
	if len(a) != len(b) {
		return false
	}
	enc := func(t proto.TableDump) string {
		var sb strings.Builder
		sb.WriteString(t.Name + "/" + t.Err + "/")
		for _, r := range t.Rows {
			fmt.Fprintf(&sb, "%d:", r.ID)
			for _, v := range r.Vals {
				sb.WriteString(v.Enc() + ",")
			}
			sb.WriteByte(';')
		}
		return sb.String()
	}
	for i := range a {
		if enc(a[i]) != enc(b[i]) {
			return false
		}
	}
	return true
}
