package main

import (
	"fmt"
	"os"
	"path/filepath"
	"sort"
	"strings"
	"time"

	"verif/harness/internal/core"
	"verif/harness/proto"
)

func init() {
	checks["C13"] = checkC13
}

type c13Stmt struct {
	sql    string
	kind   string // create insert insert_multi update delete select join other
	park   string
	parkMs int
	gapMs  int
}

// c13Pass builds one pass over the statement-kind x placement matrix.
func c13Pass(r *core.Rand, jitter bool) []c13Stmt {
	pm := func() int {
		if jitter {
			return r.Range(230, 400)
		}
		return 250
	}
	gap := func() int {
		if jitter {
			return []int{0, 130, 130, 210}[r.Intn(4)]
		}
		return 130
	}
	var out []c13Stmt
	add := func(kind, sql, park string) {
		out = append(out, c13Stmt{sql: sql, kind: kind, park: park, parkMs: pm(), gapMs: gap()})
	}
	rows := func(from, n int) string {
		var p []string
		for i := 0; i < n; i++ {
			p = append(p, fmt.Sprintf("(%d, %d, 'row-%d')", from+i, (from+i)%5, from+i))
		}
		return strings.Join(p, ", ")
	}
	add("other", "CREATE DATABASE d1", "")
	add("other", "CREATE DATABASE d2", "")
	add("other", "USE d1", "")
	// selecting the database that is already selected (also in another letter
	// case) must not leave a second store, with a flusher of its own, behind
	add("other", "USE d1", "")
	add("other", "USE D1", "")
	// statements that are refused - CREATE DATABASE for a database that
	// exists (the one in use), USE of one that does not - must not leave
	// anything behind that writes to the data file either
	add("refused", "CREATE DATABASE d1", "")
	add("refused", "CREATE DATABASE D1", "")
	add("refused", "USE nosuchdb", "")
	add("create", "CREATE TABLE a (k INT, g INT, s VARCHAR(40))", "dirty2")
	add("create", "CREATE TABLE b (k INT, g INT, s VARCHAR(40))", "")
	// a SELECT that reads no table (what a client sends to see whether the
	// session is alive): whatever it does about the store lock, the
	// statements after it are bracketed like the ones before it
	add("select", "SELECT 1 = 1", "")
	add("insert", "INSERT INTO a VALUES "+rows(0, 1), "wal")
	add("insert", "INSERT INTO a VALUES "+rows(1, 1), "")
	add("insert_multi", "INSERT INTO a VALUES "+rows(2, 12), "dirty2")
	add("insert_multi", "INSERT INTO b VALUES "+rows(0, 20), "wal")
	add("update", "UPDATE a SET s = 'u1' WHERE g = 1", "dirty2")
	add("update", "UPDATE a SET s = 'u2' WHERE k < 4", "wal")
	add("update", "UPDATE b SET g = 9", "")
	add("delete", "DELETE FROM a WHERE g = 2", "dirty2")
	add("delete", "DELETE FROM b WHERE k < 5", "wal")
	add("select", "SELECT * FROM a", "")
	add("join", "SELECT * FROM a JOIN b ON a.k = b.k", "")
	// the catalog tables read like any other table, right after a statement
	// that left changed pages behind (no pause in between): a SELECT moves
	// pages within the cache like every other statement
	noGap := func(kind, sql string) {
		add(kind, sql, "")
		out[len(out)-1].gapMs = 0
	}
	add("insert", "INSERT INTO a VALUES "+rows(50, 3), "")
	noGap("select", "SELECT * FROM sys_pages")
	add("update", "UPDATE a SET s = 'c1' WHERE k >= 50", "")
	noGap("select", "SELECT table_name, field_name FROM sys_schema")
	add("delete", "DELETE FROM a WHERE k >= 50", "")
	noGap("join", "SELECT * FROM sys_pages JOIN sys_schema ON sys_pages.table_name = sys_schema.table_name")
	// statements over hundreds of rows, parked early: a flusher that queued
	// during the park gets in at whatever point the statement lets go of the
	// store before it is complete
	add("insert_multi", "INSERT INTO b VALUES "+rows(1000, 300), "dirty2")
	add("update", "UPDATE b SET g = 7 WHERE k >= 1000", "dirty2")
	add("delete", "DELETE FROM b WHERE k >= 1000", "dirty2")
	// statements whose log append is larger than a megabyte (3800 rows of 270
	// bytes), held open inside it: whatever a statement does differently when
	// it has much to log, the flusher stays out until the append is complete
	add("create", "CREATE TABLE wide (k INT, p VARCHAR(255))", "")
	add("insert_multi", "INSERT INTO wide VALUES "+func() string {
		var p []string
		pad := strings.Repeat("w", 250)
		for i := 0; i < 3800; i++ {
			p = append(p, fmt.Sprintf("(%d, '%s')", i, pad))
		}
		return strings.Join(p, ", ")
	}(), "sync")
	add("delete", "DELETE FROM wide WHERE k >= 100", "wal")
	add("insert", "INSERT INTO wide VALUES (5000, 'x')", "sync")
	add("update", "UPDATE wide SET p = 'y' WHERE k = 5000", "sync")
	// reload: switching databases closes the service and opens a new one, so
	// the page cache is cold
	add("other", "USE d2", "")
	add("create", "CREATE TABLE z (k INT)", "dirty2")
	add("other", "USE d1", "")
	add("select", "SELECT * FROM a WHERE g = 1", "miss")
	add("other", "USE d2", "")
	add("other", "USE d1", "")
	add("join", "SELECT a.k, b.s FROM a LEFT JOIN b ON a.k = b.k ORDER BY k", "miss")
	add("insert_multi", "INSERT INTO a VALUES "+rows(100, 15), "dirty2")
	add("other", "USE d2", "")
	add("other", "USE d1", "")
	add("select", "SELECT 1 = 1 AND 2 = 2", "")
	add("update", "UPDATE a SET s = 'after-reload' WHERE k >= 100", "dirty2")
	add("delete", "DELETE FROM a WHERE k > 110", "wal")
	add("create", "CREATE TABLE c (k INT, s VARCHAR(10), f BOOLEAN, b BIGINT)", "dirty2")
	add("insert", "INSERT INTO c VALUES (1, 'x', true, 5)", "wal")
	add("select", "SELECT * FROM c", "")
	// further tables, each CREATE held open: the seventh table of a database
	// is the one whose catalog row splits the catalog's root page
	for i := 1; i <= 5; i++ {
		add("create", fmt.Sprintf("CREATE TABLE e%d (k INT, s VARCHAR(20))", i), "dirty2")
	}
	add("insert", "INSERT INTO e4 VALUES (1, 'x')", "")
	// a table grown past the split of its internal root (the 1165th row): the
	// statement in which the tree gets its third level
	for from := 0; from < 1250; from += 250 {
		add("insert_multi", "INSERT INTO e5 VALUES "+func() string {
			var p []string
			for i := from; i < from+250; i++ {
				p = append(p, fmt.Sprintf("(%d, 'r%d')", i, i))
			}
			return strings.Join(p, ", ")
		}(), "")
	}
	return out
}

// c13LongPass: ONE store that stays open for well over 30 seconds (no USE of
// another database in between):
// whatever the flusher does differently on its n-th tick, or after so many
// seconds, meets an open statement.
func c13LongPass(r *core.Rand) []c13Stmt {
	var out []c13Stmt
	add := func(kind, sql, park string, parkMs, gapMs int) {
		out = append(out, c13Stmt{sql: sql, kind: kind, park: park, parkMs: parkMs, gapMs: gapMs})
	}
	add("other", "CREATE DATABASE d1", "", 0, 0)
	add("other", "USE d1", "", 0, 0)
	add("create", "CREATE TABLE a (k INT, g INT, s VARCHAR(40))", "", 0, 0)
	// the store idles for 27 seconds (the flusher handles every tick, about
	// 270 of them), then statements follow one another closely, each held
	// open inside its log append for a little less than a timer period: nearly
	// every further tick - the 300th among them - arrives while a statement
	// is open
	next := 0
	for i := 0; i < 70; i++ {
		gap := 8
		if i == 0 {
			gap = 27000
		}
		switch i % 3 {
		case 0:
			add("insert", fmt.Sprintf("INSERT INTO a VALUES (%d, %d, 'row')", next, next%5), "wal", 90, gap)
			next++
		case 1:
			add("update", fmt.Sprintf("UPDATE a SET s = 'u%d' WHERE k = %d", i, next-1), "wal", 90, gap)
		default:
			var p []string
			for k := 0; k < 3; k++ {
				p = append(p, fmt.Sprintf("(%d, %d, 'row')", next, next%5))
				next++
			}
			add("insert_multi", "INSERT INTO a VALUES "+strings.Join(p, ", "), "wal", 90, gap)
		}
	}
	return out
}

func c13Script(mode string, pass []c13Stmt) script {
	var s script
	s.cfg(false, 0)
	s.k("init")
	slow, nosync := 0, false
	if mode == "log-nosync" {
		// the database is opened the way csvimport -disable-wal-fsync opens
		// it (no fsync after a log append); everything else as in "log"
		mode, nosync = "log", true
	}
	if mode == "log-slow" {
		// every page write of a flush takes 15 ms: whatever runs while pages
		// are being written has time to show up in the event log
		mode, slow = "log", 15
	}
	s.add(proto.Op{K: "c13setup", S: mode, N: slow})
	for _, st := range pass {
		if st.gapMs > 0 {
			s.add(proto.Op{K: "sleep", N: st.gapMs})
		}
		s.add(proto.Op{K: "c13stmt", SQL: proto.Text(st.sql), S: st.park, N: st.parkMs})
		if nosync && st.sql == "CREATE DATABASE d2" {
			s.add(proto.Op{K: "open-nosync", S: "d1"})
		}
	}
	s.add(proto.Op{K: "sleep", N: 150})
	s.k("close")
	if mode == "log" {
		s.k("c13events")
	}
	return s
}

type raceReport struct {
	a, b  string // outermost mkdb frame of each access
	inner string
	text  string
	mkdb  bool
}

func parseRaceLogs(dir string) []raceReport {
	files, _ := filepath.Glob(filepath.Join(dir, "race.*"))
	var out []raceReport
	for _, f := range files {
		b, err := os.ReadFile(f)
		if err != nil {
			continue
		}
		for _, blk := range strings.Split(string(b), "==================") {
			if !strings.Contains(blk, "WARNING: DATA RACE") {
				continue
			}
			rep := raceReport{text: blk}
			// split into stacks: a new section starts at a line that ends with ':' and is not indented
			var sections [][]string
			for _, ln := range strings.Split(blk, "\n") {
				if ln == "" {
					continue
				}
				if !strings.HasPrefix(ln, " ") && strings.HasSuffix(strings.TrimSpace(ln), ":") {
					sections = append(sections, []string{ln})
					continue
				}
				if len(sections) > 0 && strings.HasPrefix(ln, "  ") && !strings.HasPrefix(ln, "      ") {
					sections[len(sections)-1] = append(sections[len(sections)-1], strings.TrimSpace(ln))
				}
			}
			var entry []string
			var inner []string
			for _, sec := range sections {
				if len(entry) == 2 {
					break
				}
				h := sec[0]
				if !(strings.Contains(h, "ead at") || strings.Contains(h, "rite at")) {
					continue
				}
				outer, in := "", ""
				for _, fr := range sec[1:] {
					if i := strings.Index(fr, "github.com/mk6i/mkdb/"); i >= 0 {
						name := fr[i+len("github.com/mk6i/mkdb/"):]
						if j := strings.Index(name, "("); j > 0 && !strings.HasPrefix(name[j:], "(*") {
							name = name[:j]
						}
						name = strings.TrimSuffix(name, "()")
						if in == "" {
							in = name
						}
						if name != "engine.(*Session).ExecQuery" || outer == "" {
							outer = name
						}
					}
				}
				entry = append(entry, outer)
				inner = append(inner, in)
			}
			for len(entry) < 2 {
				entry = append(entry, "")
				inner = append(inner, "")
			}
			rep.mkdb = entry[0] != "" || entry[1] != ""
			sort.Strings(entry)
			sort.Strings(inner)
			rep.a, rep.b = entry[0], entry[1]
			rep.inner = inner[0] + "|" + inner[1]
			out = append(out, rep)
		}
	}
	return out
}

func checkC13(c *core.Ctx) []core.Floor {
	c.Rule = "one session goroutine against the REAL 100 ms flush goroutine. Each pass executes every statement kind {CREATE TABLE, INSERT single, INSERT multi-row (splitting; also 300 rows; 3800 rows of 270 bytes - a log append of more than a megabyte - and the DELETE of those rows; a table grown to 1250 rows in five statements, through the split of its internal root), UPDATE and DELETE (also over 300 rows), SELECT scan, SELECT join, SELECT without FROM (in front of changing statements), SELECTs of the catalog tables sys_pages / sys_schema straight after a changing statement} with placements {idle gap > 1 tick before and after, park of > 2 ticks at the statement's 2nd page change, park of > 2 ticks inside the log append (before the write; for some statements between the write and its fsync), SELECT: park at a cache miss}, on fresh pages and after a reload (cold cache); the database in use is created again and a missing one selected (both refused) before the first table; eight tables are created in one database, each CREATE held open, so that the CREATE whose catalog row splits the catalog root is among them. One more pass per build keeps ONE store open for over 35 seconds (no USE in between): 27 s idle, then 70 statements in close succession, each held open inside its log append for 90 ms, so that nearly every tick from about the 270th to the 340th arrives while a statement is open. (a) -race build: handlers only sleep on the session goroutine and add no synchronisation; every data-race report with mkdb frames is a violation (happens-before reasoning, independent of the observed timing). (b) plain build (once as is, once with every page write of a flush slowed down to 15 ms by a sleep in the write hook, once with the database opened without fsync of the log, as csvimport -disable-wal-fsync does): every hook event is logged with its goroutine id; offline checker: no page or header write by ANY goroutine between a statement's first page change and the completion of its log append (CREATE TABLE: its last page change; an accepted INSERT / UPDATE / DELETE that returns without a completed log append keeps its window open until one completes); the same checker - and the race build - runs over passes with a page cache of 10-24 pages and statements that dirty hundreds of pages (the statement may be refused with 'cache is full', but must not push its own half-done pages to the data file). Distinct = (pass, statement, placement); non-trivial = the statement was actually held open (parked) across more than two timer periods."
	c.Assume = []string{"a park of 230-400 ms spans at least two 100 ms ticks", "handlers of the race build run on the session goroutine only and share nothing with the flusher"}
	passes := 2
	if !core.Quick(c) {
		passes = 24
	}
	plain := mustDriver(c, false)
	raceDrv := mustDriver(c, true)
	type job struct {
		mode string
		pass int
	}
	var jobs []job
	for p := 0; p < passes; p++ {
		jobs = append(jobs, job{"log", p}, job{"race", p}, job{"log-slow", p}, job{"log-nosync", p})
	}
	// (first in the list: they take the longest)
	jobs = append([]job{{"log", -1}, {"race", -1}}, jobs...)
	core.ParallelFor(len(jobs), c.Workers, func(ji int) {
		j := jobs[ji]
		r := core.NewRand(core.SubSeed(c.Seed, "C13", j.pass))
		pass := c13Pass(r, j.pass > 0)
		if j.pass < 0 {
			pass = c13LongPass(r)
			c.Count("passes_with_one_store_open_for_more_than_30_seconds", 1)
		}
		dir := c.CaseDir("c13")
		defer removeAll(dir)
		sc := c13Script(j.mode, pass)
		if j.mode == "race" {
			runC13Race(c, raceDrv, dir, sc, pass, j.pass)
		} else {
			if j.mode == "log-slow" {
				c.Count("log_build_runs_with_slow_page_writes", 1)
			}
			if j.mode == "log-nosync" {
				c.Count("log_build_runs_without_fsync_of_the_log", 1)
			}
			runC13Log(c, plain, dir, sc, pass, j.pass)
		}
	})
	core.ParallelFor(passes*3, c.Workers, func(i int) {
		if i%3 == 2 {
			runC13Saturated(c, raceDrv, i, true)
		} else {
			runC13Saturated(c, plain, i, false)
		}
	})
	fl := []core.Floor{{Key: "saturated_cache_runs", Min: int64(passes)}, {Key: "saturated_cache_runs_race_build", Min: int64(passes)}, {Key: "race_build_runs", Min: int64(passes)}, {Key: "log_build_runs", Min: int64(passes)}, {Key: "foreign_flushes_observed", Min: 20}, {Key: "statement_windows_checked", Min: 20}, {Key: "passes_with_one_store_open_for_more_than_30_seconds", Min: 2}}
	for _, cell := range []string{"create_dirty2", "insert_wal", "insert_multi_dirty2", "insert_multi_wal", "update_dirty2", "update_wal", "delete_dirty2", "delete_wal", "select_miss", "join_miss"} {
		fl = append(fl, core.Floor{Key: "parked_log_" + cell, Min: 1}, core.Floor{Key: "parked_race_" + cell, Min: 1})
	}
	return fl
}

func c13Outcome(c *core.Ctx, mode string, sc script, out *core.RunOut, pass []c13Stmt, passNo int) bool {
	if out.Died {
		if out.TimedOut {
			c.Inconclusive("watchdog", "C13 pass exceeded the watchdog")
			return false
		}
		if mode == "race" && strings.Contains(out.Stderr, "DATA RACE") {
			return true // reports are read from the log files
		}
		q := ""
		if out.LastBeg >= 0 && out.LastBeg < len(sc.ops) {
			q = string(sc.ops[out.LastBeg].SQL)
		}
		c.Violation("C13:process-died:"+errClass(core.FatalTail(out.Stderr)), fmt.Sprintf("[%s build] process died at %q: %s", mode, q, core.FatalTail(out.Stderr)), map[string]interface{}{"pass": passNo, "statement": q})
		return false
	}
	si := 0
	for k, op := range sc.ops {
		if op.K != "c13stmt" {
			if out.Res[k].Failed() && op.K != "c13events" {
				c.Inconclusive("harness", fmt.Sprintf("op %s failed: %s%s", op.K, out.Res[k].Err, out.Res[k].Panic))
			}
			continue
		}
		st := pass[si]
		si++
		res := out.Res[k]
		if res.Panic != "" {
			c.Violation("C13:panic:"+res.Frame, fmt.Sprintf("[%s build] %s panicked: %s", mode, st.sql, res.Panic), map[string]interface{}{"pass": passNo, "statement": st.sql, "park": st.park})
			continue
		}
		if st.kind == "refused" {
			if res.Err == "" {
				c.Inconclusive("workload", fmt.Sprintf("statement meant to be refused was accepted: %s", st.sql))
			} else {
				c.Count("refused_database_statements_in_passes", 1)
			}
			continue
		}
		if res.Err != "" {
			c.Inconclusive("workload", fmt.Sprintf("statement failed: %s: %s", st.sql, res.Err))
			continue
		}
		parked := res.Count == 1
		if st.park != "" && parked {
			c.Count("parked_"+mode+"_"+st.kind+"_"+st.park, 1)
		}
		c.Eval(fmt.Sprintf("%s/%d/%s/%s", mode, passNo, st.sql, st.park), parked)
	}
	return true
}

func runC13Race(c *core.Ctx, drv, dir string, sc script, pass []c13Stmt, passNo int) {
	out := core.RunScript(drv, dir, sc.ops, 300*time.Second, "GORACE=halt_on_error=0 log_path="+filepath.Join(dir, "race"))
	c.Count("race_build_runs", 1)
	if !c13Outcome(c, "race", sc, out, pass, passNo) {
		return
	}
	c13RaceReports(c, dir, passNo, "race build, real ticker, statements parked with sleeps only")
}

func c13RaceReports(c *core.Ctx, dir string, passNo int, how string) {
	reps := parseRaceLogs(dir)
	c.Count("race_reports", int64(len(reps)))
	for _, rp := range reps {
		if !rp.mkdb {
			c.Inconclusive("harness-race", "race report without mkdb frames: "+clip(rp.text, 400))
			continue
		}
		if !c13InScope(rp.text) {
			// a race outside CREATE TABLE / INSERT / UPDATE / DELETE / SELECT
			// (e.g. while USE opens a database): real, but not what this
			// property states; recorded, not judged
			c.Count("race_reports_outside_the_five_statement_kinds", 1)
			c.Extra("out_of_scope_race_example", rp.a+"|"+rp.b+" ("+rp.inner+")")
			continue
		}
		c.Violation("C13:data-race:"+rp.a+"|"+rp.b, fmt.Sprintf("the race detector reports unsynchronised access between %s and %s (innermost %s)", rp.a, rp.b, rp.inner),
			map[string]interface{}{"pass": passNo, "report": clip(rp.text, 4000), "how": how})
	}
}

func runC13Log(c *core.Ctx, drv, dir string, sc script, pass []c13Stmt, passNo int) {
	out := core.RunScript(drv, dir, sc.ops, 300*time.Second)
	c.Count("log_build_runs", 1)
	if !c13Outcome(c, "log", sc, out, pass, passNo) {
		return
	}
	evRes := out.Res[len(sc.ops)-1]
	byStmt := map[int]string{}
	si := 0
	for _, op := range sc.ops {
		if op.K == "c13stmt" {
			byStmt[op.ID] = pass[si].sql
			si++
		}
	}
	accepted := map[int]bool{}
	for k, op := range sc.ops {
		if op.K == "c13stmt" && k < len(out.Res) && !out.Res[k].Failed() {
			accepted[op.ID] = true
		}
	}
	c13CheckWindows(c, evRes.Events, evRes.N, byStmt, accepted, passNo)
	c.Sample(2, map[string]interface{}{"pass": passNo, "statements": len(pass), "events": len(evRes.Events), "example_statement": pass[7].sql, "park": pass[7].park})
}

// c13CheckWindows is the offline checker over the hook event log: between a
// statement's first page change and the completion of its log append nothing
// is written to the data file - not by the flusher, and not by the statement
// itself either.
func c13CheckWindows(c *core.Ctx, events []proto.Event, sess int64, byStmt map[int]string, accepted map[int]bool, passNo int) {
	c.Count("events_logged", int64(len(events)))
	// windows
	type win struct {
		begin, end, first, last int
		logged                  bool // the statement completed a log append
	}
	var cur *win
	inStmt := false
	var wins []struct {
		w    win
		stmt int
	}
	for _, e := range events {
		switch {
		case e.K == "stmtBegin":
			cur = &win{begin: e.Seq, first: -1, last: -1}
			inStmt = true
		case e.K == "stmtEnd":
			if cur != nil {
				cur.end = e.Seq
				wins = append(wins, struct {
					w    win
					stmt int
				}{*cur, e.Stmt})
			}
			cur, inStmt = nil, false
		case inStmt && e.G == sess && e.K == "markDirty":
			if cur.first < 0 {
				cur.first = e.Seq
			}
			cur.last = e.Seq
		case inStmt && e.G == sess && e.K == "walDone":
			if cur.first >= 0 {
				cur.last = e.Seq
				cur.logged = true
			}
		}
		if (e.K == "flushBegin") && e.G != sess {
			c.Count("foreign_flushes_observed", 1)
		}
	}
	for _, w := range wins {
		if w.w.first < 0 {
			continue
		}
		c.Count("statement_windows_checked", 1)
		kind0 := strings.ToLower(strings.Fields(byStmt[w.stmt])[0])
		if !w.w.logged && accepted[w.stmt] && (kind0 == "insert" || kind0 == "update" || kind0 == "delete") {
			// an accepted INSERT / UPDATE / DELETE that changed pages and
			// returned without having completed a log append: its window stays
			// open until a log append does complete (or for good)
			w.w.last = 1 << 60
			for _, e := range events {
				if e.Seq > w.w.end && e.G == sess && e.K == "walDone" {
					w.w.last = e.Seq
					break
				}
			}
			c.Count("accepted_statements_that_returned_without_a_completed_log_append", 1)
		}
		for _, e := range events {
			if e.Seq <= w.w.first || e.Seq >= w.w.last {
				continue
			}
			if e.K == "pageWrite" || e.K == "headerWrite" {
				var around []string
				for _, x := range events {
					if x.Seq >= w.w.begin && x.Seq <= w.w.end {
						around = append(around, fmt.Sprintf("%d g%d %s %d", x.Seq, x.G, x.K, x.Off))
					}
				}
				if len(around) > 80 {
					around = around[:80]
				}
				kind := strings.ToLower(strings.Fields(byStmt[w.stmt])[0])
				sig := "C13:flusher-wrote-inside-statement:"
				if e.G == sess {
					sig = "C13:statement-wrote-to-the-data-file-before-its-log-append:"
				}
				c.Violation(sig+kind, fmt.Sprintf("goroutine %d wrote (%s, page %d) between the first page change (event %d) and the end (event %d) of: %s", e.G, e.K, e.Off, w.w.first, w.w.last, byStmt[w.stmt]),
					map[string]interface{}{"pass": passNo, "statement": byStmt[w.stmt], "session_goroutine": sess, "events_of_the_statement": around})
				break
			}
		}
	}
}

// runC13Saturated: statements whose dirty set exceeds a small page cache. The
// statement may be refused ("cache is full"), but whatever it does it must not
// write pages of a half-done, unlogged statement to the data file.
func runC13Saturated(c *core.Ctx, drv string, passNo int, race bool) {
	dir := c.CaseDir("c13s")
	defer removeAll(dir)
	r := core.NewRand(core.SubSeed(c.Seed, "C13S", passNo))
	var s script
	s.cfg(false, r.Range(10, 24)) // timer on, a cache of 10-24 pages
	s.k("init")
	mode := "log"
	if race {
		mode = "race"
	}
	s.add(proto.Op{K: "c13setup", S: mode})
	s.sql("CREATE DATABASE d1")
	s.sql("USE d1")
	s.sql("CREATE TABLE a (k INT, g INT, s VARCHAR(40))")
	byStmt := map[int]string{}
	rows := func(from, n int) string {
		var p []string
		for i := 0; i < n; i++ {
			p = append(p, fmt.Sprintf("(%d, %d, 'row-%d')", from+i, (from+i)%5, from+i))
		}
		return strings.Join(p, ", ")
	}
	var ids []int
	for _, q := range []string{
		"INSERT INTO a VALUES " + rows(0, 40),
		"INSERT INTO a VALUES " + rows(1000, r.Range(200, 400)), // far more leaves than the cache holds
		"UPDATE a SET s = 'changed'",
		"DELETE FROM a WHERE k >= 0",
		"INSERT INTO a VALUES " + rows(5000, 30),
	} {
		s.add(proto.Op{K: "sleep", N: 130})
		id := s.add(proto.Op{K: "c13stmt", SQL: proto.Text(q)})
		byStmt[s.ops[id].ID] = q
		ids = append(ids, id)
	}
	s.add(proto.Op{K: "sleep", N: 150})
	s.k("close")
	ev := s.k("c13events")
	var env []string
	if race {
		env = append(env, "GORACE=halt_on_error=0 log_path="+filepath.Join(dir, "race"))
	}
	out := core.RunScript(drv, dir, s.ops, 300*time.Second, env...)
	if race {
		c.Count("saturated_cache_runs_race_build", 1)
	} else {
		c.Count("saturated_cache_runs", 1)
	}
	if race && out.Died && !out.TimedOut && strings.Contains(out.Stderr, "DATA RACE") {
		c13RaceReports(c, dir, 1000+passNo, "race build, real ticker, page cache of 10-24 pages")
		return
	}
	if out.Died || len(out.Res) != len(s.ops) {
		if out.TimedOut {
			c.Inconclusive("watchdog", "C13 saturated-cache pass exceeded the watchdog")
			return
		}
		c.Violation("C13:process-died:"+errClass(core.FatalTail(out.Stderr)), "[saturated cache] process died: "+core.FatalTail(out.Stderr), map[string]interface{}{"pass": passNo})
		return
	}
	for _, id := range ids {
		switch res := out.Res[id]; {
		case res.Panic != "":
			c.Violation("C13:panic:"+res.Frame, "[saturated cache] statement panicked: "+res.Panic, map[string]interface{}{"pass": passNo, "statement": clip(string(s.ops[id].SQL), 200)})
		case res.Err != "":
			c.Count("saturated_cache_statements_refused", 1)
		default:
			c.Count("saturated_cache_statements_accepted", 1)
		}
	}
	if race {
		c13RaceReports(c, dir, 1000+passNo, "race build, real ticker, page cache of 10-24 pages")
		return
	}
	accepted := map[int]bool{}
	for _, id := range ids {
		if !out.Res[id].Failed() {
			accepted[s.ops[id].ID] = true
		}
	}
	c13CheckWindows(c, out.Res[ev].Events, out.Res[ev].N, byStmt, accepted, 1000+passNo)
}

// c13InScope: the session side of the report runs one of the five statement
// kinds the property names.
func c13InScope(report string) bool {
	for _, f := range []string{"engine.EvaluateCreateTable", "engine.EvaluateInsert", "engine.EvaluateUpdate", "engine.EvaluateDelete", "engine.EvaluateSelect"} {
		// also the statement's deferred calls (EvaluateInsert.deferwrap1) and closures (EvaluateSelect.func1)
		if strings.Contains(report, "github.com/mk6i/mkdb/"+f+"(") || strings.Contains(report, "github.com/mk6i/mkdb/"+f+".") {
			return true
		}
	}
	return false
}
