package main

import (
	"fmt"

	"verif/harness/internal/model"
	"verif/harness/proto"
)

const (
	maxLeafCells     = 9
	maxInternalCells = 290
)

type treeStat struct {
	Root      uint64
	Depth     int
	Leaves    int
	Internals int
	Keys      int
	Tombs     map[uint32]uint64 // tombstoned key -> page
	KeyPage   map[uint32]uint64
}

// checkTree verifies the C11 shape invariants on one tree dump.
func checkTree(t *proto.Tree, seen map[uint64]string) (*treeStat, *model.Diff) {
	pre := "C11:" // signatures do not carry table names
	st := &treeStat{Root: t.Root, Tombs: map[uint32]uint64{}, KeyPage: map[uint32]uint64{}}
	if t.Err != "" {
		return st, &model.Diff{Sig: pre + "engine-traversal-error", What: t.Table + ": " + t.Err}
	}
	pages := map[uint64]*proto.Page{}
	for i := range t.Pages {
		p := &t.Pages[i]
		if p.Err != "" {
			return st, &model.Diff{Sig: pre + "page-unreadable", What: fmt.Sprintf("%s: page %d: %s", t.Table, p.Off, p.Err)}
		}
		if _, dup := pages[p.Off]; dup {
			return st, &model.Diff{Sig: pre + "page-reachable-twice", What: fmt.Sprintf("%s: page %d reachable twice", t.Table, p.Off)}
		}
		if other, dup := seen[p.Off]; dup {
			return st, &model.Diff{Sig: pre + "page-shared-between-trees", What: fmt.Sprintf("page %d belongs to %s and %s", p.Off, other, t.Table)}
		}
		seen[p.Off] = t.Table
		pages[p.Off] = p
	}
	var leaves []*proto.Page
	leafDepth := -1
	var df *model.Diff
	var rec func(off uint64, lo, hi int64, depth int)
	rec = func(off uint64, lo, hi int64, depth int) {
		if df != nil {
			return
		}
		p := pages[off]
		if p == nil {
			df = &model.Diff{Sig: pre + "dangling-child", What: fmt.Sprintf("%s: page %d not in dump", t.Table, off)}
			return
		}
		for i, k := range p.Keys {
			if i > 0 && p.Keys[i-1] >= k {
				df = &model.Diff{Sig: pre + "keys-not-ascending-in-node", What: fmt.Sprintf("%s: page %d keys %v", t.Table, off, p.Keys)}
				return
			}
			if int64(k) < lo || (hi >= 0 && int64(k) >= hi) {
				df = &model.Diff{Sig: pre + "key-outside-parent-bounds", What: fmt.Sprintf("%s: page %d key %d outside [%d,%d)", t.Table, off, k, lo, hi)}
				return
			}
		}
		if p.Leaf {
			if len(p.Keys) > maxLeafCells {
				df = &model.Diff{Sig: pre + "leaf-over-capacity", What: fmt.Sprintf("%s: leaf %d has %d cells", t.Table, off, len(p.Keys))}
				return
			}
			if leafDepth == -1 {
				leafDepth = depth
			} else if leafDepth != depth {
				df = &model.Diff{Sig: pre + "leaves-at-different-depths", What: fmt.Sprintf("%s: leaf %d at depth %d, others at %d", t.Table, off, depth, leafDepth)}
				return
			}
			leaves = append(leaves, p)
			st.Leaves++
			for i, k := range p.Keys {
				st.Keys++
				st.KeyPage[k] = off
				if p.Deleted[i] {
					st.Tombs[k] = off
				}
			}
			return
		}
		st.Internals++
		if len(p.Keys) > maxInternalCells {
			df = &model.Diff{Sig: pre + "internal-over-capacity", What: fmt.Sprintf("%s: node %d has %d cells", t.Table, off, len(p.Keys))}
			return
		}
		if len(p.Keys) == 0 {
			df = &model.Diff{Sig: pre + "internal-node-without-keys", What: fmt.Sprintf("%s: node %d", t.Table, off)}
			return
		}
		clo := lo
		for i, k := range p.Keys {
			rec(p.Children[i], clo, int64(k), depth+1)
			clo = int64(k)
		}
		rec(p.Right, clo, hi, depth+1)
	}
	rec(t.Root, 0, -1, 0)
	if df != nil {
		return st, df
	}
	st.Depth = leafDepth + 1
	if len(pages) != st.Leaves+st.Internals {
		return st, &model.Diff{Sig: pre + "page-count-mismatch", What: fmt.Sprintf("%s: %d pages dumped, %d reached", t.Table, len(pages), st.Leaves+st.Internals)}
	}
	// keys ascending across leaves, sibling chains
	var prev int64 = -1
	var live []uint32
	for _, l := range leaves {
		for i, k := range l.Keys {
			if int64(k) <= prev {
				return st, &model.Diff{Sig: pre + "keys-not-ascending-across-leaves", What: fmt.Sprintf("%s: key %d after %d", t.Table, k, prev)}
			}
			prev = int64(k)
			if !l.Deleted[i] {
				live = append(live, k)
			}
		}
	}
	for i, l := range leaves {
		last := i == len(leaves)-1
		if last {
			if l.HasR {
				return st, &model.Diff{Sig: pre + "right-chain-continues-past-last-leaf", What: fmt.Sprintf("%s: leaf %d has right sibling %d", t.Table, l.Off, l.RSib)}
			}
		} else if !l.HasR || l.RSib != leaves[i+1].Off {
			return st, &model.Diff{Sig: pre + "right-chain-differs-from-tree-order", What: fmt.Sprintf("%s: leaf %d right sibling (%v,%d), next leaf in tree order %d", t.Table, l.Off, l.HasR, l.RSib, leaves[i+1].Off)}
		}
		if i == 0 {
			if l.HasL {
				return st, &model.Diff{Sig: pre + "left-chain-continues-past-first-leaf", What: fmt.Sprintf("%s: leaf %d has left sibling %d", t.Table, l.Off, l.LSib)}
			}
		} else if !l.HasL || l.LSib != leaves[i-1].Off {
			return st, &model.Diff{Sig: pre + "left-chain-differs-from-tree-order", What: fmt.Sprintf("%s: leaf %d left sibling (%v,%d), previous leaf in tree order %d", t.Table, l.Off, l.HasL, l.LSib, leaves[i-1].Off)}
		}
	}
	if len(t.LookupMiss) > 0 {
		return st, &model.Diff{Sig: pre + "stored-key-not-found-by-lookup", What: fmt.Sprintf("%s: keys %v", t.Table, t.LookupMiss)}
	}
	if len(t.LookupGhost) > 0 {
		return st, &model.Diff{Sig: pre + "tombstoned-key-found-by-lookup", What: fmt.Sprintf("%s: keys %v", t.Table, t.LookupGhost)}
	}
	if !t.NoLookups {
		if len(t.ScanLeft) != len(live) {
			return st, &model.Diff{Sig: pre + "reverse-scan-differs", What: fmt.Sprintf("%s: reverse scan saw %d keys, tree holds %d live keys", t.Table, len(t.ScanLeft), len(live))}
		}
		for i := range live {
			if t.ScanLeft[len(live)-1-i] != live[i] {
				return st, &model.Diff{Sig: pre + "reverse-scan-differs", What: fmt.Sprintf("%s: reverse scan position %d", t.Table, i)}
			}
		}
	}
	return st, nil
}

// checkTrees verifies every tree of a walk result.
func checkTrees(trees []proto.Tree) (map[string]*treeStat, *model.Diff) {
	seen := map[uint64]string{}
	stats := map[string]*treeStat{}
	for i := range trees {
		st, df := checkTree(&trees[i], seen)
		stats[trees[i].Table] = st
		if df != nil {
			return stats, df
		}
	}
	return stats, nil
}

// walkDelta derives coverage counters from two consecutive walks.
type walkCov struct {
	LeafSplits, InternalSplits, RootMoves, CatalogRootMoves, TombCrossed int64
	MaxDepth                                                             int64
}

func (w *walkCov) delta(prev, cur map[string]*treeStat) {
	for name, c := range cur {
		if int64(c.Depth) > w.MaxDepth {
			w.MaxDepth = int64(c.Depth)
		}
		p := prev[name]
		if p == nil {
			continue
		}
		if c.Leaves > p.Leaves {
			w.LeafSplits += int64(c.Leaves - p.Leaves)
		}
		if c.Internals > p.Internals {
			n := int64(c.Internals - p.Internals)
			if p.Root != c.Root {
				n-- // the new root
			}
			if p.Internals > 0 && n > 0 {
				w.InternalSplits += n
			}
		}
		if p.Root != c.Root {
			w.RootMoves++
			if name == "sys_pages" || name == "sys_schema" {
				w.CatalogRootMoves++
			}
		}
		for k, pg := range p.Tombs {
			if npg, ok := c.KeyPage[k]; ok && npg != pg {
				w.TombCrossed++
			}
		}
	}
}
