package main

import (
	"encoding/json"
	"fmt"
	"path/filepath"
	"strings"
	"time"

	"verif/harness/internal/core"
	"verif/harness/internal/gen"
	"verif/harness/internal/model"
	"verif/harness/proto"
)

func init() {
	checks["C14"] = checkC14
}

type failStmt struct {
	st    *proto.Stmt
	text  string // when set, submitted as SQL text
	cause string
	k     int // 1-based position of the invalid row (0: not row-related)
	n     int
	twin  bool // the invalid row prints like an earlier valid row of the statement
}

func longStr(r *core.Rand, n int) string {
	if n >= 2 && r.Chance(1, 3) {
		// n BYTES of two- and three-byte letters: far fewer characters than
		// bytes (limits are about bytes)
		var sb strings.Builder
		for sb.Len()+3 <= n {
			sb.WriteString([]string{"é", "ü", "ж", "λ", "語", "€"}[r.Intn(6)])
		}
		for sb.Len() < n {
			sb.WriteByte(byte('a' + r.Intn(26)))
		}
		return sb.String()
	}
	b := make([]byte, n)
	for i := range b {
		b[i] = byte('a' + r.Intn(26))
	}
	return string(b)
}

// wrongTypeVal returns a value of a type the column does not accept.
func wrongTypeVal(r *core.Rand, c model.Col) proto.Val {
	switch c.Type {
	case "int", "bigint":
		if r.Bool() {
			return proto.Str("abc")
		}
		return proto.Bool(true)
	case "varchar":
		if r.Bool() {
			return proto.Int(7)
		}
		return proto.Bool(false)
	}
	if r.Bool() {
		return proto.Int(1)
	}
	return proto.Str("true")
}

var hugeOversize int64 // (diagnostic only)

// genFailing builds a statement that must fail on db, for a chosen cause.
func genFailing(r *core.Rand, h *gen.Hist, cause string) *failStmt {
	db := h.DB
	var usable []*model.Table
	for _, t := range db.Tables {
		if gen.Usable(t) {
			usable = append(usable, t)
		}
	}
	if len(usable) == 0 {
		return nil
	}
	t := usable[r.Intn(len(usable))]
	fs := &failStmt{cause: cause}
	multi := func(bad func(row []proto.Val) []proto.Val) {
		n := r.Range(1, 8)
		if r.Chance(1, 8) {
			// statements of hundreds of rows: whatever an implementation does
			// per chunk of rows (validate, store, log) must still be undone or
			// not begun when a row far down the list is the bad one
			n = r.Range(129, 520)
		}
		k := r.Range(1, n)
		if r.Chance(1, 4) {
			k = 1
		}
		if n > 128 && r.Chance(1, 2) {
			k = []int{129, 130, 257, n}[r.Intn(4)]
			if k > n {
				k = n
			}
		}
		s := &proto.Stmt{Kind: "insert", Table: t.Name}
		if r.Bool() {
			for _, c := range t.Cols {
				s.Cols = append(s.Cols, c.Name)
			}
		}
		for i := 1; i <= n; i++ {
			row := h.NewRow(t, r.Intn(2))
			if i == k {
				row = bad(row)
			}
			s.Rows = append(s.Rows, row)
		}
		fs.st, fs.k, fs.n = s, k, n
	}
	switch cause {
	case "repeated-column":
		// a column list that names a column twice (legal: the later value is
		// the one stored); in the k-th row the earlier value is valid and the
		// later one is not
		n := r.Range(2, 8)
		k := r.Range(2, n)
		ci := r.Intn(len(t.Cols))
		s := &proto.Stmt{Kind: "insert", Table: t.Name}
		for _, cl := range t.Cols {
			s.Cols = append(s.Cols, cl.Name)
		}
		s.Cols = append(s.Cols, t.Cols[ci].Name)
		for i := 1; i <= n; i++ {
			row := h.NewRow(t, 0)
			extra := row[ci]
			if i == k {
				// the later of the two values is the one mkdb stores: with the
				// invalid value in that place the statement has to be refused
				extra = wrongTypeVal(r, t.Cols[ci])
			}
			s.Rows = append(s.Rows, append(row, extra))
		}
		fs.st, fs.k, fs.n = s, k, n
	case model.FailNoTable:
		switch r.Intn(3) {
		case 0:
			fs.st = &proto.Stmt{Kind: "insert", Table: "nosuch", Rows: [][]proto.Val{{proto.Int(1)}}}
		case 1:
			fs.st = &proto.Stmt{Kind: "update", Table: "nosuch", Sets: []proto.SetItem{{Col: "g", Val: proto.Int(1)}}}
		default:
			fs.st = &proto.Stmt{Kind: "delete", Table: "nosuch"}
		}
	case model.FailColCount:
		multi(func(row []proto.Val) []proto.Val {
			if r.Bool() && len(row) > 1 {
				return row[:len(row)-1]
			}
			return append(row, proto.Int(1))
		})
	case model.FailType:
		multi(func(row []proto.Val) []proto.Val {
			ci := r.Intn(len(t.Cols))
			row[ci] = wrongTypeVal(r, t.Cols[ci])
			return row
		})
		if fs.k > 1 && fs.st != nil && r.Chance(1, 2) {
			// the refused row is the "quoted twin" of an earlier, valid row:
			// every value prints the same, one of them has another type
			// (7 and '7', true and 'true'). Whatever an implementation
			// remembers about rows it has already looked at must not be keyed
			// by how they print
			rows := fs.st.Rows
			j := r.Intn(fs.k - 1)
			twin := append([]proto.Val(nil), rows[j]...)
			var cands []int
			for ci := range twin {
				if !twin[ci].IsNull() {
					cands = append(cands, ci)
				}
			}
			if len(cands) > 0 {
				ci := cands[r.Intn(len(cands))]
				switch v := twin[ci]; v.K {
				case 'i':
					twin[ci] = proto.Str(fmt.Sprint(v.I))
				case 'b':
					twin[ci] = proto.Str(fmt.Sprint(v.B))
				case 's':
					// the earlier row gets a string that reads like a number,
					// the twin the number itself
					rows[j][ci] = proto.Str("7")
					twin[ci] = proto.Int(7)
				}
				rows[fs.k-1] = twin
				fs.twin = true
			}
		}
	case model.FailRange:
		multi(func(row []proto.Val) []proto.Val {
			ci := r.Intn(2) // k or g: INT
			if r.Bool() {
				row[ci] = proto.Int(2147483648 + int64(r.Intn(5)))
			} else {
				row[ci] = proto.Int(-2147483649 - int64(r.Intn(5)))
			}
			return row
		})
	case model.FailSize:
		vi := -1
		for i, c := range t.Cols {
			if c.Type == "varchar" {
				vi = i
			}
		}
		if vi < 0 {
			return nil
		}
		multi(func(row []proto.Val) []proto.Val {
			row[vi] = proto.Str("")
			base := model.EncodedSize(t.Cols, row)
			over := 1
			if r.Bool() {
				over = r.Range(2, 60)
			}
			if r.Chance(1, 5) {
				// far over the limit: row images of 2^16 or 2^17 bytes and a
				// little more (sizes that look small again when they are kept
				// in 16 bits)
				over = (1<<16)*r.Range(1, 2) - model.MaxRowSize + r.Intn(300)
				hugeOversize++
			}
			row[vi] = proto.Str(longStr(r, model.MaxRowSize-base+over))
			return row
		})
	case model.FailDupTable:
		name := t.Name
		if r.Chance(1, 4) {
			name = []string{"sys_pages", "sys_schema"}[r.Intn(2)]
		}
		fs.st = &proto.Stmt{Kind: "create", Table: name, Defs: []proto.ColDef{{Name: "x", Type: "int"}, {Name: "y", Type: "varchar", Len: 10}}}
	case "create-name-too-long":
		// the catalog row of one column (table name + column name) exceeds
		// the 400-byte row limit; that column is the first, a middle or the
		// last one
		nd := r.Range(1, 4)
		bad := r.Intn(nd)
		var defs []proto.ColDef
		for i := 0; i < nd; i++ {
			d := proto.ColDef{Name: fmt.Sprintf("c%d", i), Type: "int"}
			if i == bad {
				d.Name = strings.Repeat("c", r.Range(215, 260))
			}
			defs = append(defs, d)
		}
		fs.st = &proto.Stmt{Kind: "create", Table: strings.Repeat("n", r.Range(200, 240)), Defs: defs}
		fs.k, fs.n = bad+1, nd
		if r.Chance(1, 3) {
			// no columns at all: the only catalog row is the one that maps
			// the name to a page, and the name alone is too long for it
			fs.st = &proto.Stmt{Kind: "create", Table: strings.Repeat("n", r.Range(387, 460))}
			fs.k, fs.n = 1, 1
		}
	case "create-length-out-of-range":
		name := fmt.Sprintf("fresh%d", r.Intn(1000))
		// the column with the out-of-range length at any position, among
		// columns with shorter and longer names
		names := []string{"a", "bb", "description", "id", "x1", "somewhat_longer_name"}
		nd := r.Range(1, 5)
		bad := r.Intn(nd)
		var defs []proto.ColDef
		for i := 0; i < nd; i++ {
			d := proto.ColDef{Name: names[(i+r.Intn(6))%6] + fmt.Sprint(i), Type: []string{"int", "varchar", "boolean", "bigint"}[r.Intn(4)]}
			if d.Type == "varchar" {
				d.Len = int64(r.Range(1, 255))
			}
			if i == bad {
				d.Type, d.Len = "varchar", 2147483648+int64(r.Intn(1000))*int64(r.Intn(1000000))
			}
			defs = append(defs, d)
		}
		fs.st = &proto.Stmt{Kind: "create", Table: name, Defs: defs}
	case "update-" + model.FailSize:
		vi := -1
		for i, c := range t.Cols {
			if c.Type == "varchar" {
				vi = i
			}
		}
		if vi < 0 || len(t.Rows) == 0 {
			return nil
		}
		// the k-th matching row is the first that overflows
		var bases []int
		for _, row := range t.Rows {
			v := append([]proto.Val(nil), row.Vals...)
			v[vi] = proto.Str("")
			bases = append(bases, model.EncodedSize(t.Cols, v))
		}
		var cands []int
		mx := -1
		for i, b := range bases {
			if b > mx {
				cands = append(cands, i)
				mx = b
			}
		}
		k := cands[r.Intn(len(cands))]
		l := model.MaxRowSize - bases[k] + 1
		fs.st = &proto.Stmt{Kind: "update", Table: t.Name, Sets: []proto.SetItem{{Col: t.Cols[vi].Name, Val: proto.Str(longStr(r, l))}}}
		fs.k, fs.n = k+1, len(t.Rows)
	case "update-" + model.FailType, "update-" + model.FailRange:
		if len(t.Rows) == 0 {
			return nil
		}
		ci := r.Range(1, len(t.Cols)-1)
		v := wrongTypeVal(r, t.Cols[ci])
		if cause == "update-"+model.FailRange {
			ci = 1
			v = proto.Int(2147483648)
		}
		fs.st = &proto.Stmt{Kind: "update", Table: t.Name, Sets: []proto.SetItem{{Col: t.Cols[ci].Name, Val: v}}}
		fs.k, fs.n = 1, len(t.Rows)
	case "where-type":
		if len(t.Rows) == 0 {
			return nil
		}
		w := model.Cmp("<", model.ColOp("k"), model.LitOp(proto.Str("abc")))
		if r.Bool() {
			fs.st = &proto.Stmt{Kind: "delete", Table: t.Name, Where: w}
		} else {
			fs.st = &proto.Stmt{Kind: "update", Table: t.Name, Sets: []proto.SetItem{{Col: "g", Val: proto.Int(3)}}, Where: w}
		}
	}
	if fs.st == nil {
		return nil
	}
	if model.StmtTextOK(fs.st) && r.Bool() {
		fs.text = model.RenderStmt(fs.st, model.Plain)
	}
	return fs
}

var c14Causes = []string{model.FailNoTable, model.FailColCount, model.FailType, model.FailRange, model.FailSize, model.FailDupTable,
	"update-" + model.FailSize, "update-" + model.FailType, "update-" + model.FailRange, "where-type", "create-length-out-of-range", "repeated-column", "create-name-too-long"}

func checkC14(c *core.Ctx) []core.Floor {
	c.Rule = "states from seeded histories (splits, tombstones); then failing INSERT/UPDATE/DELETE/CREATE TABLE statements for every cause the property names (plus column lists that name a column twice with a valid and an invalid value), with the invalid row at every position k of n-row INSERTs (n<=8) and UPDATEs whose k-th matching row is the one that overflows; full-database snapshot (SELECT * of all tables + catalog) before, immediately after, after flush+close+new process, and after crash+recovery of an image taken right after the failure; then 3 valid statements. A further third as many cases end with statements of unusual but legal shapes that the unchanged code ACCEPTS (a column named twice in CREATE TABLE, no columns, SET of one column twice, partial or repeated column lists, and single statements that move over a megabyte of row images: a 3000-row INSERT of near-limit rows, an UPDATE of all of them, a DELETE of 38000 rows, ...): whatever they do is not judged - unless they return an error, in which case the dump before, the dump after and the dump after close + reopen have to be identical. Distinct = (history, failing statement); non-trivial = the failing row was not the first (k > 1) or the cause is not row-related."
	c.Assume = []string{"which error value is returned is not judged, only that one is", "row ids may have gaps after a refused row"}
	drv := mustDriver(c, false)
	n := 300
	if !core.Quick(c) {
		n = 8000
	}
	core.ParallelFor(n, c.Workers, func(i int) { runC14(c, drv, i) })
	core.ParallelFor(n/3, c.Workers, func(i int) { runC14Maybe(c, drv, i) })
	fl := []core.Floor{{Key: "odd_statements_of_over_a_megabyte_of_row_images", Min: 2}, {Key: "failing_statements", Min: 300}, {Key: "stage_clean_restart_ok", Min: 50}, {Key: "stage_crash_ok", Min: 100}}
	for _, cs := range c14Causes {
		fl = append(fl, core.Floor{Key: "cause_" + cs, Min: 5})
	}
	fl = append(fl, core.Floor{Key: "cause_update-fixed-width-overflow", Min: 5}, core.Floor{Key: "cause_where-error-on-later-row", Min: 5}, core.Floor{Key: "insert_failing_row_k1", Min: 5}, core.Floor{Key: "insert_failing_row_k>1", Min: 5}, core.Floor{Key: "update_overflow_k>1", Min: 1})
	return fl
}

func runC14(c *core.Ctx, drv string, idx int) {
	dir := c.CaseDir("c14")
	defer removeAll(dir)
	r := core.NewRand(core.SubSeed(c.Seed, "C14", idx))
	h := gen.NewHist(r, false)
	h.MaxTables = r.Range(1, 3)
	var s script
	type meta struct {
		kind string
		st   *proto.Stmt
		fs   *failStmt
	}
	var mt []meta
	add := func(op proto.Op, m meta) int { mt = append(mt, m); return s.add(op) }
	add(proto.Op{K: "cfg", N: 1}, meta{kind: "other"})
	add(proto.Op{K: "init"}, meta{kind: "other"})
	add(proto.Op{K: "sql", SQL: "CREATE DATABASE d1"}, meta{kind: "other"})
	add(proto.Op{K: "sql", SQL: "USE d1"}, meta{kind: "other"})
	np := r.Range(8, 40)
	for i := 0; i < np; i++ {
		st := h.Next()
		add(proto.Op{K: "stmt", Stmt: st}, meta{kind: "stmt", st: st})
		if r.Chance(1, 4) {
			add(proto.Op{K: "flush"}, meta{kind: "other"})
		}
	}
	// a table whose rows sit at the size limit with NULLs in fixed-width
	// columns: setting such a column grows the row by 1, 4 or 8 bytes
	var fwFail *failStmt
	if idx%3 == 0 {
		ct := &proto.Stmt{Kind: "create", Table: "fw", Defs: []proto.ColDef{{Name: "k", Type: "int"}, {Name: "g", Type: "int"}, {Name: "n", Type: "int"}, {Name: "b", Type: "bigint"}, {Name: "f", Type: "boolean"}, {Name: "pad", Type: "varchar", Len: 255}}}
		if f, _, _, err := h.DB.Apply(ct); f == "" && err == nil {
			add(proto.Op{K: "stmt", Stmt: ct}, meta{kind: "stmt", st: ct})
			t := h.DB.Table("fw")
			ins := &proto.Stmt{Kind: "insert", Table: "fw"}
			nrows := r.Range(2, 6)
			if r.Chance(1, 6) {
				nrows = r.Range(130, 300)
			}
			kth := r.Range(2, nrows)
			if nrows > 128 {
				kth = r.Range(129, nrows)
			}
			col := []string{"n", "b", "f"}[r.Intn(3)]
			for i := 1; i <= nrows; i++ {
				row := []proto.Val{proto.Int(int64(i)), proto.Int(1), proto.Null(), proto.Null(), proto.Null(), proto.Str("")}
				if i == kth {
					base := model.EncodedSize(t.Cols, row)
					row[5] = proto.Str(longStr(r, model.MaxRowSize-base)) // exactly at the limit
				} else {
					row[5] = proto.Str(longStr(r, r.Intn(100)))
				}
				ins.Rows = append(ins.Rows, row)
			}
			if f, _, _, err := h.DB.Apply(ins); f == "" && err == nil {
				add(proto.Op{K: "stmt", Stmt: ins}, meta{kind: "stmt", st: ins})
				v := map[string]proto.Val{"n": proto.Int(7), "b": proto.Int(1 << 40), "f": proto.Bool(true)}[col]
				fwFail = &failStmt{cause: "update-fixed-width-overflow", k: kth, n: nrows,
					st: &proto.Stmt{Kind: "update", Table: "fw", Sets: []proto.SetItem{{Col: col, Val: v}}}}
				if r.Bool() {
					// assignments to columns the table does not have (mkdb
					// ignores them), as many as make the SET list as long as
					// the table is wide - or the same assignment repeated
					for x := 1; x < len(t.Cols); x++ {
						it := proto.SetItem{Col: fmt.Sprintf("nosuch%d", x), Val: proto.Int(int64(x))}
						if r.Chance(1, 3) {
							it = fwFail.st.Sets[0]
						}
						fwFail.st.Sets = append(fwFail.st.Sets, it)
					}
					if r.Bool() {
						// the real assignment last
						n := len(fwFail.st.Sets)
						fwFail.st.Sets[0], fwFail.st.Sets[n-1] = fwFail.st.Sets[n-1], fwFail.st.Sets[0]
					}
				}
			}
		}
	}
	// a WHERE clause whose evaluation fails on a later row only: an ordering
	// comparison meets a NULL in the k-th row after earlier rows matched
	if idx%3 == 1 {
		ct := &proto.Stmt{Kind: "create", Table: "wn", Defs: []proto.ColDef{{Name: "k", Type: "int"}, {Name: "g", Type: "int"}, {Name: "n", Type: "int"}, {Name: "s", Type: "varchar", Len: 20}}}
		if f, _, _, err := h.DB.Apply(ct); f == "" && err == nil {
			add(proto.Op{K: "stmt", Stmt: ct}, meta{kind: "stmt", st: ct})
			ins := &proto.Stmt{Kind: "insert", Table: "wn"}
			nrows := r.Range(3, 12)
			if r.Chance(1, 6) {
				nrows = r.Range(130, 300)
			}
			kth := r.Range(2, nrows)
			if nrows > 128 {
				kth = r.Range(129, nrows)
			}
			for i := 1; i <= nrows; i++ {
				row := []proto.Val{proto.Int(int64(i)), proto.Int(1), proto.Int(int64(10 * i)), proto.Str("v")}
				if i == kth {
					row[2], row[3] = proto.Null(), proto.Null()
				}
				ins.Rows = append(ins.Rows, row)
			}
			if f, _, _, err := h.DB.Apply(ins); f == "" && err == nil {
				add(proto.Op{K: "stmt", Stmt: ins}, meta{kind: "stmt", st: ins})
				col, lit := "n", proto.Int(5)
				if r.Bool() {
					col, lit = "s", proto.Str("a")
				}
				w := model.Cmp([]string{">", ">=", "<", "<="}[r.Intn(4)], model.ColOp(col), model.LitOp(lit))
				st := &proto.Stmt{Kind: "delete", Table: "wn", Where: w}
				if r.Bool() {
					st = &proto.Stmt{Kind: "update", Table: "wn", Sets: []proto.SetItem{{Col: "g", Val: proto.Int(9)}}, Where: w}
				}
				fwFail = &failStmt{cause: "where-error-on-later-row", k: kth, n: nrows, st: st}
			}
		}
	}
	// two tables filled in turns (their row ids interleave, the first one has
	// grown past one page), a successful UPDATE on the one, then an UPDATE on
	// the other whose k-th row (k > 1) overflows: whatever the successful
	// statement left behind about where it found its rows must not stand in
	// for a look at the other table
	if idx%3 == 2 && fwFail == nil {
		mkT := func(name string) *proto.Stmt {
			return &proto.Stmt{Kind: "create", Table: name, Defs: []proto.ColDef{{Name: "k", Type: "int"}, {Name: "g", Type: "int"}, {Name: "pad", Type: "varchar", Len: 255}, {Name: "pad2", Type: "varchar", Len: 255}}}
		}
		ok := true
		push := func(st *proto.Stmt) {
			if f, _, _, err := h.DB.Apply(st); f != "" || err != nil {
				ok = false
				return
			}
			add(proto.Op{K: "stmt", Stmt: st}, meta{kind: "stmt", st: st})
		}
		push(mkT("ila"))
		push(mkT("ilb"))
		na := r.Range(10, 30)
		big := r.Range(3, 6) // the row of ilb that overflows first: the k-th in scan order
		nb := 0
		for i := 0; i < na && ok; i++ {
			push(&proto.Stmt{Kind: "insert", Table: "ila", Rows: [][]proto.Val{{proto.Int(int64(i)), proto.Int(0), proto.Str("a"), proto.Str("")}}})
			if i >= na-8 {
				// the rows of ilb lie among the newest rows of ila
				nb++
				p2 := strings.Repeat("q", 20)
				if nb == big {
					p2 = strings.Repeat("q", 140)
				}
				push(&proto.Stmt{Kind: "insert", Table: "ilb", Rows: [][]proto.Val{{proto.Int(int64(i)), proto.Int(0), proto.Str("b"), proto.Str(p2)}}})
			}
		}
		if ok {
			// successful: its last matched row sits on the right-most leaf of ila
			push(&proto.Stmt{Kind: "update", Table: "ila", Sets: []proto.SetItem{{Col: "g", Val: proto.Int(1)}}, Where: model.Cmp(">=", model.ColOp("k"), model.LitOp(proto.Int(int64(na-r.Range(1, 4)))))})
		}
		if ok {
			// row number 'big' of ilb overflows: 5+5 + 260 + 145 > 400; the others fit
			st := &proto.Stmt{Kind: "update", Table: "ilb", Sets: []proto.SetItem{{Col: "pad", Val: proto.Str(strings.Repeat("z", 255))}}}
			if f, _, _, err := h.DB.Plan(st); f != "" && err == nil {
				fwFail = &failStmt{cause: "update-overflow-after-update-of-interleaved-table", k: big, n: nb, st: st}
			}
		}
	}
	add(proto.Op{K: "dump"}, meta{kind: "pre"})
	nf := r.Range(1, 4)
	var fails []*failStmt
	for i := 0; i < nf; i++ {
		cause := c14Causes[(idx+i*7+r.Intn(2)*3)%len(c14Causes)]
		fs := genFailing(r, h, cause)
		if i == 0 && fwFail != nil {
			fs = fwFail
		}
		if fs == nil {
			continue
		}
		fails = append(fails, fs)
		if fs.text != "" {
			add(proto.Op{K: "sql", SQL: proto.Text(fs.text)}, meta{kind: "fail", fs: fs})
		} else {
			add(proto.Op{K: "stmt", Stmt: fs.st}, meta{kind: "fail", fs: fs})
		}
		add(proto.Op{K: "dump"}, meta{kind: "post", fs: fs})
		add(proto.Op{K: "image", Dir: filepath.Join(dir, fmt.Sprintf("img%d", len(fails)), "data")}, meta{kind: "other"})
	}
	// in the same session, after the refused statements: the tables they
	// named get enough new rows to split their right-most leaf, then every
	// row is updated - whatever a refused statement left behind about the
	// rows it had looked at must not meet these statements
	{
		seen := map[string]bool{}
		for _, fs := range fails {
			t := h.DB.Table(fs.st.Table)
			if t == nil || seen[t.Name] || !gen.Usable(t) || fs.st.Kind == "create" {
				continue
			}
			seen[t.Name] = true
			b := h.Burst(t, r.Range(9, 14))
			add(proto.Op{K: "stmt", Stmt: b}, meta{kind: "late", st: b})
			upd := &proto.Stmt{Kind: "update", Table: t.Name, Sets: []proto.SetItem{{Col: "g", Val: proto.Int(77)}}}
			if f, _, _, err := h.DB.Apply(upd); f == "" && err == nil {
				add(proto.Op{K: "stmt", Stmt: upd}, meta{kind: "late", st: upd})
			}
			add(proto.Op{K: "dump"}, meta{kind: "latedump"})
		}
	}
	add(proto.Op{K: "flush"}, meta{kind: "other"})
	add(proto.Op{K: "close"}, meta{kind: "other"})
	out := core.RunScript(drv, dir, s.ops, 120*time.Second)
	var mFail *model.DB // the state right after the refused statements (what their crash images must show)
	m := model.NewDB()
	grave := model.Graveyard{}
	replay := func(fs *failStmt) interface{} {
		var texts []string
		for _, x := range mt {
			if x.kind == "stmt" {
				texts = append(texts, clip(model.RenderStmt(x.st, model.Plain), 300))
			}
		}
		return map[string]interface{}{"case": idx, "history": texts, "failing_statement": clip(model.RenderStmt(fs.st, model.Plain), 1500), "as_sql_text": fs.text != "", "cause": fs.cause, "invalid_row": fs.k, "rows": fs.n}
	}
	okSoFar := true
	judged := 0
	for k := range out.Res {
		res := &out.Res[k]
		x := mt[k]
		if res.Panic != "" {
			if x.kind == "fail" {
				c.Violation("C14:"+x.fs.st.Kind+":"+x.fs.cause+":panic:"+res.Frame, "failing statement panicked: "+res.Panic, replay(x.fs))
			} else {
				c.Inconclusive("phase1", "panic in "+x.kind+": "+res.Panic)
			}
			okSoFar = false
			break
		}
		switch x.kind {
		case "stmt":
			if res.Err != "" {
				c.Inconclusive("phase1", "history statement failed: "+res.Err)
				okSoFar = false
			} else if f, _, _, err := m.Apply(x.st); f != "" || err != nil {
				c.Inconclusive("model", "history statement rejected by model")
				okSoFar = false
			}
		case "pre":
			if df := m.CheckDump("C14:pre", res.Tables, grave, true); df != nil {
				c.Inconclusive("phase1", "state before the failing statement differs from the model (C01's business): "+df.What)
				okSoFar = false
			}
		case "fail":
			c.Count("failing_statements", 1)
			c.Count("cause_"+x.fs.cause, 1)
			if x.fs.twin {
				c.Count("refused_row_prints_like_an_earlier_valid_row", 1)
			}
			if res.Err == "" {
				c.Count("statement_did_not_fail", 1)
				c.Inconclusive("not-refused", fmt.Sprintf("statement expected to fail (%s) succeeded — C08's business: %s", x.fs.cause, clip(model.RenderStmt(x.fs.st, model.Plain), 200)))
				okSoFar = false
			}
		case "late":
			if mFail == nil {
				mFail = m.Clone()
			}
			if res.Err != "" {
				c.Violation("C14:later-statement-in-the-same-session-failed:"+x.st.Kind+":"+errClass(res.Err), fmt.Sprintf("valid statement after the refused ones, same session, returned: %s", res.Err), replay(fails[len(fails)-1]))
				okSoFar = false
			} else if f, _, _, err := m.Apply(x.st); f != "" || err != nil {
				c.Inconclusive("model", "late statement rejected by model")
				okSoFar = false
			}
		case "latedump":
			if df := m.CheckDump("C14:later-statements-same-session", res.Tables, grave, true); df != nil {
				c.Violation(df.Sig, "after the refused statements, in the same session, rows were added and every row updated: "+df.What, replay(fails[len(fails)-1]))
				okSoFar = false
			} else {
				c.Count("same_session_aftermath_ok", 1)
			}
		case "post":
			fs := x.fs
			pre := "C14:" + fs.st.Kind + ":" + fs.cause + ":immediately"
			if df := m.CheckDump(pre, res.Tables, grave, true); df != nil {
				sig := df.Sig
				// is it exactly "the row operations before the failing one were applied"?
				if fail, _, ops, err := m.Plan(fs.st); err == nil && fail != "" && len(ops) > 0 {
					pm := m.Clone()
					pm.ApplyOps(fs.st, ops, -1)
					if pm.CheckDump(pre, res.Tables, grave, false) == nil {
						sig = "C14:" + fs.st.Kind + ":rows-before-the-failing-row-remain"
					}
				}
				c.Violation(sig, fmt.Sprintf("after failing %s (%s, invalid row %d of %d): %s", fs.st.Kind, fs.cause, fs.k, fs.n, df.What), replay(fs))
				okSoFar = false
				break
			}
			judged++
			c.Count("stage_immediately_ok", 1)
			if fs.st.Kind == "insert" && fs.n > 0 {
				if fs.k == 1 {
					c.Count("insert_failing_row_k1", 1)
				} else {
					c.Count("insert_failing_row_k>1", 1)
				}
			}
			if fs.cause == "update-"+model.FailSize && fs.k > 1 {
				c.Count("update_overflow_k>1", 1)
			}
			c.Eval(fmt.Sprintf("%d/%d", idx, k), fs.k != 1)
		}
		if !okSoFar {
			break
		}
	}
	if okSoFar && out.Died {
		if out.TimedOut {
			c.Inconclusive("watchdog", "C14 case exceeded the watchdog")
		} else {
			kind := mt[out.LastBeg].kind
			if kind == "fail" {
				c.Violation("C14:"+mt[out.LastBeg].fs.st.Kind+":"+mt[out.LastBeg].fs.cause+":process-died", "process died in a failing statement: "+core.FatalTail(out.Stderr), replay(mt[out.LastBeg].fs))
			} else {
				c.Inconclusive("phase1", "driver died in "+kind)
			}
		}
		return
	}
	if !okSoFar || judged == 0 {
		return
	}
	lastFs := fails[len(fails)-1]
	if mFail == nil {
		mFail = m
	}
	// crash branch: every image taken right after a failing statement
	var jobs []*crashJob
	for i, fs := range fails {
		jobs = append(jobs, &crashJob{dir: filepath.Join(dir, fmt.Sprintf("img%d", i+1)), cands: []*model.DB{mFail}, noSecond: true,
			label: "after_failed_" + fs.st.Kind, replay: replay(fs), classSig: ""})
	}
	before := c.Counter("images_verified")
	_ = before
	verifyCrashJobsPrefixed(c, "C14", drv, dir, jobs, func(j *crashJob, sig string) string {
		return strings.Replace(sig, "C14:after-recovery", "C14:"+strings.TrimPrefix(j.label, "after_failed_")+":after-crash", 1)
	})
	for _, j := range jobs {
		if !j.failed {
			c.Count("stage_crash_ok", 1)
		}
	}
	// clean restart branch + 3 valid statements
	var s2 script
	var mt2 []meta
	add2 := func(op proto.Op, mm meta) { mt2 = append(mt2, mm); s2.add(op) }
	add2(proto.Op{K: "cfg", N: 1}, meta{kind: "other"})
	add2(proto.Op{K: "init"}, meta{kind: "other"})
	add2(proto.Op{K: "sql", SQL: "USE d1"}, meta{kind: "other"})
	add2(proto.Op{K: "dump"}, meta{kind: "restart"})
	h2 := gen.HistFrom(r, m, false)
	for i := 0; i < 3; i++ {
		st := h2.Next()
		add2(proto.Op{K: "stmt", Stmt: st}, meta{kind: "stmt", st: st})
		add2(proto.Op{K: "dump"}, meta{kind: "after"})
	}
	add2(proto.Op{K: "close"}, meta{kind: "other"})
	out2 := core.RunScript(drv, dir, s2.ops, 60*time.Second)
	for k := range out2.Res {
		res := &out2.Res[k]
		x := mt2[k]
		if res.Panic != "" {
			c.Violation("C14:after-restart:panic:"+res.Frame, "after restart: "+res.Panic, replay(lastFs))
			return
		}
		switch x.kind {
		case "restart":
			if df := m.CheckDump("C14:"+lastFs.st.Kind+":after-clean-restart", res.Tables, grave, true); df != nil {
				c.Violation(df.Sig, df.What, replay(lastFs))
				return
			}
			c.Count("stage_clean_restart_ok", 1)
		case "stmt":
			if res.Err != "" {
				c.Violation("C14:later-statement-failed:"+x.st.Kind+":"+errClass(res.Err), fmt.Sprintf("valid statement after the failed one returned: %s", res.Err), replay(lastFs))
				return
			}
			m.Apply(x.st)
		case "after":
			if df := m.CheckDump("C14:later-statements", res.Tables, grave, true); df != nil {
				c.Violation(df.Sig, df.What, replay(lastFs))
				return
			}
		default:
			if res.Err != "" {
				c.Violation("C14:after-restart:op-failed:"+errClass(res.Err), s2.ops[k].K+": "+res.Err, replay(lastFs))
				return
			}
		}
	}
	if out2.Died && !out2.TimedOut {
		c.Violation("C14:after-restart:process-died", core.FatalTail(out2.Stderr), replay(lastFs))
	}
	c.Count("later_statements_ok", 1)
	c.Sample(4, map[string]interface{}{"case": idx, "failing": func() []string {
		var o []string
		for _, fs := range fails {
			o = append(o, fmt.Sprintf("%s/%s k=%d/%d text=%v", fs.st.Kind, fs.cause, fs.k, fs.n, fs.text != ""))
		}
		return o
	}()})
}

// runC14Maybe: statements that the unchanged code accepts although they are
// odd. The property speaks about statements that RETURN AN ERROR, whatever
// the reason: should one of these be refused (today or after a change), it
// has to leave nothing behind.
func runC14Maybe(c *core.Ctx, drv string, idx int) {
	dir := c.CaseDir("c14m")
	defer removeAll(dir)
	r := core.NewRand(core.SubSeed(c.Seed, "C14M", idx))
	h := gen.NewHist(r, false)
	h.MaxTables = r.Range(1, 3)
	if idx%4 == 3 {
		h.MaxTables = r.Range(7, 9)
	}
	var s script
	s.cfg(true, 0)
	s.k("init")
	s.sql("CREATE DATABASE d1")
	s.sql("USE d1")
	for i, np := 0, r.Range(8, 40); i < np; i++ {
		s.stmt(h.Next())
	}
	t := h.DB.Tables[r.Intn(len(h.DB.Tables))]
	fresh := fmt.Sprintf("odd%d", idx)
	cands := []string{
		"CREATE TABLE " + fresh + " (a INT, a INT)",
		"CREATE TABLE " + fresh + " (a INT, b VARCHAR(10), a BOOLEAN)",
		"CREATE TABLE " + fresh + " (a INT, b INT, c INT, d INT, e INT, f INT, g INT, h INT, a BIGINT)",
		"CREATE TABLE " + fresh + " ()",
		"CREATE TABLE " + fresh + " (a VARCHAR(0))",
		"CREATE TABLE " + strings.ToUpper(t.Name) + " (a INT)",
		fmt.Sprintf("UPDATE %s SET g = 1, g = 2", t.Name),
		fmt.Sprintf("INSERT INTO %s (k) VALUES (77777)", t.Name),
		fmt.Sprintf("INSERT INTO %s (k, g, g) VALUES (77778, 1, 2), (77779, 3, 4)", t.Name),
		fmt.Sprintf("INSERT INTO %s (g, k) VALUES (5, 77780)", t.Name),
		fmt.Sprintf("DELETE FROM %s WHERE k = 1 AND k = 2", t.Name),
		fmt.Sprintf("UPDATE %s SET g = 6 WHERE k = -5", t.Name),
		fmt.Sprintf("INSERT INTO %s (k, g) VALUES (77781, 1), (77782, 2), (77783, 3), (77784, 4), (77785, 5), (77786, 6), (77787, 7), (77788, 8), (77789, 9), (77790, 10)", t.Name),
	}
	q := cands[r.Intn(len(cands))]
	if idx%50 == 7 {
		// one huge statement (over a megabyte of row images): a 3000-row
		// INSERT of rows near the size limit, an UPDATE of all of them, or a
		// DELETE without WHERE over 38000 short rows. Accepted by the
		// unchanged code; should a size limit ever refuse one of them, it has
		// to do so before the first row is touched
		big := fmt.Sprintf("huge%d", idx)
		wide := func(from, n int, fill string) string {
			var p []string
			for i := 0; i < n; i++ {
				p = append(p, fmt.Sprintf("(%d, '%s', '%s')", from+i, strings.Repeat(fill, 250), strings.Repeat("q", 110+(from+i)%15)))
			}
			return strings.Join(p, ", ")
		}
		switch (idx / 50) % 3 {
		case 0:
			s.sql("CREATE TABLE " + big + " (k INT, p VARCHAR(255), q VARCHAR(255))")
			q = "INSERT INTO " + big + " VALUES " + wide(0, r.Range(2800, 3400), "p")
		case 1:
			s.sql("CREATE TABLE " + big + " (k INT, p VARCHAR(255), q VARCHAR(255))")
			for from := 0; from < 3000; from += 500 {
				s.sql("INSERT INTO " + big + " VALUES " + wide(from, 500, "p"))
				s.k("flush")
			}
			q = "UPDATE " + big + " SET p = '" + strings.Repeat("u", 250) + "'"
		default:
			s.sql("CREATE TABLE " + big + " (k INT)")
			for from := 0; from < 38000; from += 3800 {
				var p []string
				for i := 0; i < 3800; i++ {
					p = append(p, fmt.Sprintf("(%d)", from+i))
				}
				s.sql("INSERT INTO " + big + " VALUES " + strings.Join(p, ", "))
				s.k("flush") // (the timer is off: without this the cache fills up with changed pages)
			}
			q = "DELETE FROM " + big
		}
		c.Count("odd_statements_of_over_a_megabyte_of_row_images", 1)
	}
	pre := s.k("dump")
	st := s.sql(q)
	post := s.k("dump")
	s.k("flush")
	s.k("close")
	s.k("session")
	s.sql("USE d1")
	re := s.k("dump")
	s.k("close")
	out := core.RunScript(drv, dir, s.ops, 120*time.Second)
	if out.Died || len(out.Res) != len(s.ops) {
		if out.LastBeg == st && !out.TimedOut {
			c.Violation("C14:odd-statement:process-died", "process died in: "+q+": "+core.FatalTail(out.Stderr), map[string]interface{}{"case": idx, "statement": q})
			return
		}
		c.Inconclusive("phase1", "C14 odd-statement case did not finish")
		return
	}
	for k := 0; k < st; k++ {
		if out.Res[k].Failed() {
			c.Inconclusive("phase1", "history statement failed: "+out.Res[k].Err+out.Res[k].Panic)
			return
		}
	}
	c.Count("odd_statements", 1)
	res := out.Res[st]
	if res.Panic != "" {
		c.Violation("C14:odd-statement:panic:"+res.Frame, "statement panicked: "+res.Panic+": "+q, map[string]interface{}{"case": idx, "statement": q})
		return
	}
	if res.Err == "" {
		c.Count("odd_statements_accepted", 1)
		return
	}
	if strings.Contains(res.Err, "cache is full") {
		// refused for lack of clean pages in the cache: not one of the causes
		// the property names (C16 states the precondition that covers it)
		c.Count("odd_statements_refused_because_the_cache_was_full_not_judged", 1)
		return
	}
	c.Count("odd_statements_refused", 1)
	key := func(k int) string {
		if out.Res[k].Failed() {
			return "dump failed: " + out.Res[k].Err + out.Res[k].Panic
		}
		b, _ := json.Marshal(out.Res[k].Tables)
		return string(b)
	}
	kind := strings.ToLower(strings.Fields(q)[0])
	replay := map[string]interface{}{"case": idx, "statement": q, "error_returned": res.Err}
	if key(pre) != key(post) {
		c.Violation("C14:"+kind+":refused-odd-statement:immediately", fmt.Sprintf("%s returned %q, and the database is not what it was before it", clip(q, 200), res.Err), replay)
		return
	}
	if key(pre) != key(re) {
		c.Violation("C14:"+kind+":refused-odd-statement:after-restart", fmt.Sprintf("%s returned %q; after flush, close and reopen the database is not what it was before it", clip(q, 200), res.Err), replay)
		return
	}
	c.Count("odd_statements_refused_and_nothing_changed", 1)
}
