package main

import (
	"fmt"
	"path/filepath"
	"strings"
	"time"

	"verif/harness/internal/core"
	"verif/harness/internal/gen"
	"verif/harness/internal/model"
	"verif/harness/proto"
)

func init() {
	checks["C03"] = checkC03
}

// armedHist: a prefix history, then one multi-row statement whose log writes
// are all crash points.
type armedHist struct {
	crashHist
	armed *proto.Stmt
	shape string
}

func buildArmedHist(c *core.Ctx, idx int) *armedHist {
	r := core.NewRand(core.SubSeed(c.Seed, "ARMED", idx))
	h := gen.NewHist(r, false)
	h.MaxTables = r.Range(1, 3)
	ah := &armedHist{}
	ah.idx = idx
	ah.name = "random"
	n := r.Range(3, 25)
	if idx%5 == 4 {
		// a catalog that is a two-level tree: the catalog record of a root
		// move then lives in a catalog leaf, not in the catalog root
		h.MaxTables = r.Range(8, 12)
		n = r.Range(25, 45)
	}
	for i := 0; i < n; i++ {
		ah.stmts = append(ah.stmts, h.Next())
	}
	push := func(s *proto.Stmt) bool {
		f, _, _, err := h.DB.Apply(s)
		if f != "" || err != nil {
			return false
		}
		ah.stmts = append(ah.stmts, s)
		return true
	}
	shape := r.Intn(8)
	if idx%5 == 4 && r.Bool() {
		shape = 0
	}
	if idx%150 == 17 {
		shape = 8
	}
	if (core.Quick(c) && idx%20 == 5) || (!core.Quick(c) && idx%80 == 5) {
		shape = 9 // costly (1100-row tables): 60 per quick run, 375 per thorough run
	}
	if (core.Quick(c) && idx%100 == 25) || (!core.Quick(c) && idx%160 == 25) {
		shape = 10
	}
	var armed *proto.Stmt
	switch shape {
	case 10:
		// the INSERT that splits the table's internal root (its 1165th row) is
		// the 2^k-th RECORD of the statement (64 ... 1024): if the statement's
		// records are handed to the log in groups of such a size, the cut
		// falls between that record and the catalog record that belongs to it
		pw := r.Range(6, 10)
		before := 1<<uint(pw) - 1
		ct := &proto.Stmt{Kind: "create", Table: "pw", Defs: []proto.ColDef{{Name: "k", Type: "int"}, {Name: "g", Type: "int"}, {Name: "pad", Type: "varchar", Len: 255}}}
		push(ct)
		next := 0
		padLen := r.Range(0, 40)
		mk := func(n int) *proto.Stmt {
			st := &proto.Stmt{Kind: "insert", Table: "pw"}
			for i := 0; i < n; i++ {
				st.Rows = append(st.Rows, []proto.Val{proto.Int(int64(next)), proto.Int(1), proto.Str(strings.Repeat("p", padLen))})
				next++
			}
			return st
		}
		for pre := 1165 - 1 - before; pre > 0; {
			n := pre
			if n > 300 {
				n = 300
			}
			push(mk(n))
			pre -= n
		}
		armed = mk(before + 1 + r.Range(2, 40))
		ah.shape = fmt.Sprintf("insert-internal-root-move-at-record-2^%d", pw)
	case 9:
		// the record of the INSERT that moves the table's root is the one with
		// which the statement's log bytes reach a power of two (512 B ... 128
		// KiB): if the log append is cut into pieces of such a size, the cut
		// falls between that record and the catalog record that belongs to it
		pw := r.Range(9, 17)
		size := 1 << uint(pw)
		var padLen, before int
		for {
			padLen = r.Range(10, 255)
			rec := 29 + 15 + padLen // record header + row (k, g, pad) as encoded
			before = (size - 1) / rec
			if (pw <= 11 && before <= 8) || (pw > 11 && before <= 1100) {
				break
			}
		}
		mover := 9 // the row with which a fresh table's root moves
		if pw > 11 {
			mover = 1165 // ... and with which its internal root splits
		}
		ct := &proto.Stmt{Kind: "create", Table: "pw", Defs: []proto.ColDef{{Name: "k", Type: "int"}, {Name: "g", Type: "int"}, {Name: "pad", Type: "varchar", Len: 255}}}
		push(ct)
		next := 0
		mk := func(n int) *proto.Stmt {
			st := &proto.Stmt{Kind: "insert", Table: "pw"}
			for i := 0; i < n; i++ {
				st.Rows = append(st.Rows, []proto.Val{proto.Int(int64(next)), proto.Int(1), proto.Str(strings.Repeat("p", padLen))})
				next++
			}
			return st
		}
		for pre := mover - 1 - before; pre > 0; {
			n := pre
			if n > 300 {
				n = 300
			}
			push(mk(n))
			pre -= n
		}
		armed = mk(before + 1 + r.Range(2, 6))
		ah.shape = fmt.Sprintf("insert-root-move-at-log-byte-2^%d", pw)
		if pw > 11 {
			ah.shape = fmt.Sprintf("insert-internal-root-move-at-log-byte-2^%d", pw)
		}
	case 8:
		// the armed INSERT crosses the split of the table's internal root
		// (the 1165th row): the root moves in mid-batch on a three-level tree
		t := pickUsable(h, r)
		for len(t.Rows) < 1120 {
			ah.stmts = append(ah.stmts, h.Burst(t, r.Range(200, 400)))
		}
		// bring the table to 1140-1160 cells (deleted rows keep their cells)
		armed = h.Insert(t, 1)
		armed.Rows = nil
		for i := 0; i < 70; i++ {
			armed.Rows = append(armed.Rows, h.NewRow(t, 0))
		}
		ah.shape = "insert-internal-root-move"
	case 6:
		// a statement whose log records total tens of kilobytes
		t := pickUsable(h, r)
		n := r.Range(40, 90)
		armed = &proto.Stmt{Kind: "insert", Table: t.Name}
		for i := 0; i < n; i++ {
			armed.Rows = append(armed.Rows, h.NewRow(t, 2))
		}
		ah.shape = "insert-bulk"
	case 7:
		t := pickUsable(h, r)
		for i := 0; i < 4; i++ {
			ah.stmts = append(ah.stmts, h.Burst(t, r.Range(60, 120)))
		}
		if r.Bool() {
			armed = &proto.Stmt{Kind: "update", Table: t.Name, Sets: []proto.SetItem{{Col: "g", Val: proto.Int(int64(r.Range(10, 99)))}}}
			ah.shape = "update-bulk"
		} else {
			armed = &proto.Stmt{Kind: "delete", Table: t.Name, Where: model.Cmp(">=", model.ColOp("k"), model.LitOp(proto.Int(int64(r.Intn(50)))))}
			ah.shape = "delete-bulk"
		}
	case 0, 1:
		// multi-row INSERT crossing the first split of a fresh table: the
		// root moves in mid-batch (catalog record inside the batch)
		if len(h.DB.Tables) >= h.MaxTables {
			h.MaxTables = len(h.DB.Tables) + 1
		}
		ct := h.CreateTable()
		push(ct)
		if len(h.DB.Tables) >= 8 {
			ah.shape = "insert-root-move-two-level-catalog"
		}
		t := h.DB.Table(ct.Table)
		pre := r.Range(4, 8)
		push(h.Insert(t, pre))
		armed = h.Insert(t, r.Range(9-pre, 9-pre+5))
		if ah.shape == "" {
			ah.shape = "insert-root-move"
		}
	case 2:
		t := pickUsable(h, r)
		armed = h.Insert(t, r.Range(2, 14))
		ah.shape = "insert"
	case 3, 4:
		t := pickUsable(h, r)
		push(h.Insert(t, r.Range(4, 14)))
		kind := "update"
		if shape == 4 {
			kind = "delete"
		}
		// condition matching several recent rows
		lo := int64(0)
		for _, row := range t.Rows {
			if row.Vals[0].I > lo {
				lo = row.Vals[0].I
			}
		}
		lo -= int64(r.Range(1, 13))
		cond := model.Cmp(">=", model.ColOp("k"), model.LitOp(proto.Int(lo)))
		if kind == "update" {
			armed = &proto.Stmt{Kind: "update", Table: t.Name, Where: cond, Sets: []proto.SetItem{{Col: "g", Val: proto.Int(int64(r.Range(10, 99)))}}}
		} else {
			armed = &proto.Stmt{Kind: "delete", Table: t.Name, Where: cond}
		}
		ah.shape = kind
	default:
		t := pickUsable(h, r)
		if r.Bool() {
			armed = h.Update(t)
			armed.Where = nil
			ah.shape = "update"
		} else {
			armed = h.Delete(t)
			armed.Where = nil
			ah.shape = "delete"
		}
	}
	if f, _, ops, err := h.DB.Plan(armed); f != "" || err != nil || len(ops) == 0 {
		// not a statement that succeeds with at least one row operation:
		// fall back to a plain multi-row insert
		armed = h.Insert(pickUsable(h, r), r.Range(2, 14))
		ah.shape = "insert"
	}
	ah.armed = armed
	return ah
}

func pickUsable(h *gen.Hist, r *core.Rand) *model.Table {
	var u []*model.Table
	for _, t := range h.DB.Tables {
		if gen.Usable(t) {
			u = append(u, t)
		}
	}
	return u[r.Intn(len(u))]
}

func checkC03(c *core.Ctx) []core.Floor {
	c.Level = "fault_enumeration"
	c.Rule = "seeded prefix histories followed by one multi-row INSERT/UPDATE/DELETE (2-14 row operations; a third of the INSERTs move the table's root in mid-batch; one history in twenty places the root-moving record exactly where the statement's log bytes reach 2^9 ... 2^17, on fresh tables and on tables about to split their internal root; one in a hundred makes the INSERT that splits the internal root the 64th ... 1024th RECORD of the statement); a crash image is taken immediately before EVERY write and fsync the statement issues on the log file, in two cuts (log as written / log as of the last fsync). Each image is recovered in a fresh process; the state must equal pre-state + first j row operations for some j; recovery is repeated; then 3-8 further statements are checked against the model continued from that j-state. Independently of the hooks, one history in forty (thirty in the thorough tier) is re-run under strace once per write / fsync call it makes on the log file - every statement of the history, not only the armed one - with SIGKILL delivered on entry to that call; what is left must be a prefix state of the statement that was in flight, and 3-5 further statements must behave. Distinct = image; non-trivial = recovery of the image replayed at least one log record."
	c.Assume = []string{"process-death crash model; the fsync cut applies to the log only", "the data file is untouched while a statement appends to the log (timer off: a flush cannot interleave, which is C13's claim)"}
	drv := mustDriver(c, false)
	straceOK = straceWorks(c, drv)
	n := 1200
	if !core.Quick(c) {
		n = 30000
	}
	core.ParallelFor(n, c.Workers, func(i int) {
		runArmedHist(c, drv, buildArmedHist(c, i))
	})
	floors := []core.Floor{}
	if straceOK {
		floors = append(floors, core.Floor{Key: "syscall_kills", Min: 200})
	}
	return append(floors, []core.Floor{
		{Key: "images_verified", Min: 1000}, {Key: "armed_insert-root-move", Min: 10}, {Key: "armed_insert-bulk", Min: 10}, {Key: "armed_insert-internal-root-move", Min: 3}, {Key: "armed_internal_root_move_at_a_power_of_two_record_index", Min: 5}, {Key: "armed_insert-root-move-two-level-catalog", Min: 5}, {Key: "log_batches_over_16KiB", Min: 10}, {Key: "armed_update", Min: 10}, {Key: "armed_delete", Min: 10},
		{Key: "images_insert_sync_f", Min: 1}, {Key: "images_update_sync_f", Min: 1}, {Key: "images_delete_sync_f", Min: 1},
		{Key: "images_insert_len_w", Min: 1}, {Key: "images_update_len_w", Min: 1}, {Key: "images_delete_len_w", Min: 1},
		{Key: "continuations_ok", Min: 500},
	}...)
}

func runArmedHist(c *core.Ctx, drv string, ah *armedHist) {
	dir := c.CaseDir("c03")
	defer removeAll(dir)
	r := core.NewRand(core.SubSeed(c.Seed, "C03S", ah.idx))
	ah.schedule(r, r.Intn(3))
	var s script
	s.cfg(true, 0)
	s.k("init")
	s.sql("CREATE DATABASE d1")
	s.sql("USE d1")
	if ah.idx%10 == 6 {
		// page offsets beyond 32 bits in the log records: the data file's
		// allocation frontier starts just below or beyond 4 GiB (sparse file)
		s.add(proto.Op{K: "setnextfree", N: int([]int64{1<<32 - 2*4096, 1 << 32, 1<<32 + 5*4096, 1<<33 + 4096}[(ah.idx/10)%4])})
		c.Count("armed_histories_in_a_data_file_around_or_beyond_4GiB", 1)
	}
	var stmtOps []int
	for i, st := range ah.stmts {
		stmtOps = append(stmtOps, s.stmt(st))
		if ah.flush[i] {
			s.k("flush")
		}
		if ah.reopen[i] {
			s.k("close")
			s.k("session")
			s.sql("USE d1")
		}
	}
	dumpOp := s.k("dump")
	s.add(proto.Op{K: "arm", S: "wal", Dir: filepath.Join(dir, "arm"), DB: "d1"})
	armedOp := s.stmt(ah.armed)
	disarmOp := s.k("disarm")
	out := core.RunScript(drv, dir, s.ops, 120*time.Second)
	if out.Died {
		c.Inconclusive("phase1", fmt.Sprintf("armed history %d died at op %d: %s", ah.idx, out.LastBeg, core.FatalTail(out.Stderr)))
		return
	}
	m := model.NewDB()
	for i, id := range stmtOps {
		if out.Res[id].Failed() {
			c.Inconclusive("phase1", fmt.Sprintf("armed history %d: prefix statement failed: %s%s", ah.idx, out.Res[id].Err, out.Res[id].Panic))
			return
		}
		if f, _, _, err := m.Apply(ah.stmts[i]); f != "" || err != nil {
			c.Inconclusive("model", fmt.Sprintf("prefix statement rejected by model: %s %v", f, err))
			return
		}
	}
	if df := m.CheckDump("C03:phase1", out.Res[dumpOp].Tables, model.Graveyard{}, true); df != nil {
		c.Inconclusive("phase1", "uncrashed prefix already differs from the model (C01's business): "+df.What)
		return
	}
	if out.Res[armedOp].Failed() || out.Res[disarmOp].Failed() {
		c.Inconclusive("phase1", fmt.Sprintf("armed statement failed uncrashed: %s %s %s", out.Res[armedOp].Err, out.Res[armedOp].Panic, out.Res[disarmOp].Err))
		return
	}
	fail, _, rowOps, err := m.Plan(ah.armed)
	if fail != "" || err != nil {
		c.Inconclusive("model", "armed statement rejected by model")
		return
	}
	nOps := len(rowOps)
	if nOps == 0 {
		c.Count("armed_without_row_ops", 1)
		return
	}
	cands := make([]*model.DB, nOps+1)
	// prefer the longest prefix first: identical states (e.g. an UPDATE that
	// sets the value a row already has) are then attributed to the later j
	for j := 0; j <= nOps; j++ {
		cm := m.Clone()
		cm.ApplyOps(ah.armed, rowOps, j)
		cands[nOps-j] = cm
	}
	events := out.Res[disarmOp].Events
	nrec := 0
	for _, e := range events {
		if e.K == "sync" {
			nrec++
		}
	}
	c.Count("armed_"+ah.shape, 1)
	if strings.Contains(ah.shape, "-at-record-2^") {
		c.Count("armed_internal_root_move_at_a_power_of_two_record_index", 1)
	}
	if len(events) >= 2 {
		sz := int64(events[len(events)-1].Off) - int64(events[0].Off)
		c.Max("largest_log_batch_bytes", sz)
		if sz > 16384 {
			c.Count("log_batches_over_16KiB", 1)
		}
	}
	if nrec > nOps {
		c.Count("armed_batches_with_catalog_record", 1)
	}
	armedText := clip(model.RenderStmt(ah.armed, model.Plain), 600)
	var jobs []*crashJob
	for _, e := range events {
		for _, cut := range []string{"w", "f"} {
			d := filepath.Join(dir, "arm", fmt.Sprintf("e%d", e.Seq))
			if cut == "f" {
				if e.Off <= e.A {
					continue // nothing written since the last fsync: same image
				}
				d += "f"
			}
			j := &crashJob{
				dir: d, cands: cands, cont: r.Range(3, 8), chain: r.Intn(2),
				label: fmt.Sprintf("%s_%s_%s", ah.armed.Kind, e.K, cut),
				seed:  core.SubSeed(c.Seed, "C03C", ah.idx*1000+e.Seq),
				replay: map[string]interface{}{"history": ah.idx, "shape": ah.shape, "flush_class": ah.class, "armed_statement": armedText, "row_operations": nOps, "log_records": nrec,
					"crash_before_event": e.Seq, "event_kind": e.K, "record_index": e.Stmt, "cut": map[string]string{"w": "log as written", "f": "log truncated to the last fsync"}[cut],
					"log_size": e.Off, "log_synced": e.A, "prefix_statements": len(ah.stmts), "how": "run history ARMED/<history> of this seed, kill -9 immediately before the given log write"},
			}
			jobs = append(jobs, j)
		}
	}
	nHook := len(jobs)
	every, maxKills := 40, 120
	if !core.Quick(c) {
		every, maxKills = 30, 400
	}
	if straceOK && ah.idx%every == 0 {
		// crash points at system-call level, independent of the hooks: every
		// write and fsync the whole history issues on the log file
		kops := make([]proto.Op, len(s.ops))
		copy(kops, s.ops)
		for k := range kops {
			switch kops[k].K {
			case "arm", "disarm", "dump":
				kops[k] = proto.Op{K: "stats", ID: kops[k].ID}
			}
		}
		pre := map[int]*model.DB{}
		stm := map[int]*proto.Stmt{}
		pm := model.NewDB()
		for i, id := range stmtOps {
			pre[id], stm[id] = pm.Clone(), ah.stmts[i]
			pm.Apply(ah.stmts[i])
		}
		pre[armedOp], stm[armedOp] = pm.Clone(), ah.armed
		sk := syscallKillsWal(c, drv, dir, ah.idx, kops, func(op int) (*proto.Stmt, *model.DB) { return stm[op], pre[op] }, core.SubSeed(c.Seed, "C03K", ah.idx), maxKills)
		c.Count("histories_re_run_under_strace", 1)
		jobs = append(jobs, sk...)
	}
	verifyCrashJobs(c, "C03", drv, dir, jobs)
	for ji, j := range jobs {
		if ji >= nHook {
			c.Eval(j.dir, j.recDirty > 0)
			continue
		}
		if j.matched >= 0 {
			jj := nOps - j.matched
			switch {
			case jj == 0:
				c.Count("outcome_no_row_operation_applied", 1)
			case jj == nOps:
				c.Count("outcome_all_row_operations_applied", 1)
			default:
				c.Count("outcome_strict_prefix", 1)
			}
		}
		c.Eval(j.dir, j.recDirty > 0)
	}
	c.Sample(3, map[string]interface{}{"history": ah.idx, "shape": ah.shape, "armed_statement": clip(armedText, 200), "row_operations": nOps, "log_records": nrec, "images": len(jobs)})
}
