package main

import (
	"fmt"
	"strings"
	"time"

	"verif/harness/internal/core"
	"verif/harness/internal/gen"
	"verif/harness/internal/model"
	"verif/harness/proto"
)

func init() {
	checks["C05"] = checkC05
	checks["C06"] = checkC06
	checks["C07"] = checkC07
}

type sqlCase struct {
	setup     []*proto.Stmt
	queries   []*proto.NStmt
	texts     []string
	tags      []string
	expectErr []bool       // the property requires an error (ambiguity probes)
	mayRefuse map[int]bool // refusing the query as ambiguous is as acceptable as the right answer
	notJudged map[int]bool // ill-typed on purpose: run for what it may leave behind, its own outcome is nobody's business here
	reopen    bool
}

func randStyle(r *core.Rand) model.Style {
	return model.Style{KwCase: r.Intn(3), WS: r.Intn(3), OptKw: r.Bool(), LimitOffsetSwap: r.Bool(), ZeroPad: r.Chance(1, 4), R: r}
}

// runSQLCase creates the tables, runs the queries through the real parse
// path + EvaluateSelect, and judges each result against the reference
// evaluator.
func runSQLCase(c *core.Ctx, prop, drv string, idx int, sc *sqlCase, m *model.DB) {
	runSQLCaseKeep(c, prop, drv, idx, sc, m, nil)
}

func runSQLCaseKeep(c *core.Ctx, prop, drv string, idx int, sc *sqlCase, m *model.DB, after func(results [][][]proto.Val, errs []string)) {
	dir := c.CaseDir("sql")
	defer removeAll(dir)
	var s script
	s.cfg(true, 0)
	s.k("init")
	s.sql("CREATE DATABASE d1")
	s.sql("USE d1")
	nset := 0
	for _, st := range sc.setup {
		s.stmt(st)
		nset++
	}
	if sc.reopen {
		s.k("flush")
		s.k("close")
		s.k("session")
		s.sql("USE d1")
	}
	first := len(s.ops)
	for _, t := range sc.texts {
		s.query(t)
	}
	out := core.RunScript(drv, dir, s.ops, 120*time.Second)
	for i := 0; i < first && i < len(out.Res); i++ {
		if out.Res[i].Failed() {
			c.Inconclusive("setup", fmt.Sprintf("%s: setup op %s failed: %s%s", prop, s.ops[i].K, out.Res[i].Err, out.Res[i].Panic))
			return
		}
	}
	results := make([][][]proto.Val, len(sc.texts))
	errs := make([]string, len(sc.texts))
	for qi := range errs {
		errs[qi] = "not run"
	}
	defer func() {
		if after != nil {
			after(results, errs)
		}
	}()
	for qi := range sc.texts {
		if first+qi >= len(out.Res) {
			break
		}
		res := &out.Res[first+qi]
		errs[qi] = res.Err + res.Panic
		for _, r := range res.Rows {
			results[qi] = append(results[qi], r.Vals)
		}
		n := sc.queries[qi]
		replay := map[string]interface{}{"case": idx, "query": sc.texts[qi], "tag": sc.tags[qi], "after_flush_and_reopen": sc.reopen, "tables": tablesBrief(m, n)}
		c.Count("queries", 1)
		c.Count("tag_"+sc.tags[qi], 1)
		if res.Panic != "" {
			c.Violation(prop+":panic:"+res.Frame, fmt.Sprintf("query panicked: %s\n%s", res.Panic, sc.texts[qi]), replay)
			continue
		}
		if sc.notJudged[qi] {
			c.Count("ill_typed_queries_run_in_between_not_judged", 1)
			continue
		}
		if sc.expectErr[qi] {
			c.Eval(sc.texts[qi], true)
			if res.Err == "" {
				c.Violation(prop+":ambiguous-name-resolved-silently", fmt.Sprintf("an unqualified column name that exists on both sides was accepted: %s", sc.texts[qi]), replay)
			} else {
				c.Count("ambiguity_rejected", 1)
			}
			continue
		}
		exp, err := m.EvalSelect(n)
		if err != nil {
			c.Inconclusive("generator", fmt.Sprintf("reference evaluator rejects a generated query (%v): %s", err, sc.texts[qi]))
			continue
		}
		c.Eval(sc.texts[qi], len(exp.Rows) > 0)
		if res.Err != "" && sc.mayRefuse[qi] && strings.Contains(res.Err, "ambiguous") {
			c.Count("refused_as_ambiguous_where_that_is_acceptable", 1)
			continue
		}
		if res.Err != "" {
			cls := errKind(res.Err)
			c.Violation(prop+":query-error:"+cls, fmt.Sprintf("well-typed query returned an error: %s\n%s", res.Err, sc.texts[qi]), replay)
			continue
		}
		var act [][]proto.Val
		for _, r := range res.Rows {
			act = append(act, r.Vals)
		}
		if df := model.CompareSelect(exp, n, res.Cols, act); df != nil {
			c.Violation(prop+":"+df.Sig, fmt.Sprintf("%s\n%s", df.What, sc.texts[qi]), replay)
			continue
		}
		c.Count("results_equal_to_reference", 1)
		c.Count(fmt.Sprintf("result_rows_%s", sizeClass(len(act))), 1)
	}
	if out.Died {
		if out.TimedOut {
			c.Inconclusive("watchdog", prop+" case timed out")
		} else {
			q := ""
			if out.LastBeg >= first && out.LastBeg-first < len(sc.texts) {
				q = sc.texts[out.LastBeg-first]
			}
			c.Violation(prop+":process-died", core.FatalTail(out.Stderr)+"\n"+q, map[string]interface{}{"case": idx, "query": q})
		}
	}
	if len(sc.texts) > 0 {
		c.Sample(4, map[string]interface{}{"case": idx, "query": sc.texts[0], "tag": sc.tags[0]})
	}
}

func sizeClass(n int) string {
	switch {
	case n == 0:
		return "0"
	case n == 1:
		return "1"
	case n < 10:
		return "2-9"
	}
	return "10+"
}

func tablesBrief(m *model.DB, n *proto.NStmt) interface{} {
	out := map[string]interface{}{}
	for _, f := range n.From {
		t := m.Table(f.Name)
		if t == nil {
			continue
		}
		var rows []string
		for i, r := range t.Rows {
			if i >= 45 {
				rows = append(rows, "...")
				break
			}
			var p []string
			for _, v := range r.Vals {
				p = append(p, v.String())
			}
			rows = append(rows, strings.Join(p, ","))
		}
		var cols []string
		for _, cl := range t.Cols {
			cols = append(cols, cl.Name+" "+cl.Type)
		}
		out[f.Name] = map[string]interface{}{"columns": cols, "rows_in_insertion_order": rows}
	}
	return out
}

func applyAll(m *model.DB, stmts []*proto.Stmt) bool {
	for _, st := range stmts {
		if f, _, _, err := m.Apply(st); f != "" || err != nil {
			return false
		}
	}
	return true
}

func clauseTag(n *proto.NStmt) string {
	var p []string
	if n.Star {
		p = append(p, "star")
	} else {
		p = append(p, "list")
	}
	if n.Where != nil {
		p = append(p, "where")
	}
	if len(n.OrderBy) > 0 {
		p = append(p, fmt.Sprintf("order%d", len(n.OrderBy)))
	}
	if n.HasLimit {
		p = append(p, "limit")
	}
	if n.HasOffset {
		p = append(p, "offset")
	}
	return strings.Join(p, "_")
}

// ---------- C05 ----------

func checkC05(c *core.Ctx) []core.Floor {
	c.Rule = "tables of 0-40 rows over int/bigint/varchar/boolean (non-NULL, duplicates and ties on purpose); queries generated as trees and rendered to SQL text (random keyword case, whitespace, optional keywords, LIMIT/OFFSET order): select list (*, columns, qualified columns, literals, comparison expressions, aliases), WHERE = OR-of-AND-of-comparisons (<= 6 predicates, all six operators, column-vs-literal and column-vs-column), ORDER BY 0-3 output columns ASC/DESC, LIMIT/OFFSET incl. 0 and beyond the result; plus every AND/OR shape up to 4 predicates over a truth-table table (all 16 valuations). Executed through the real parse path + EvaluateSelect on a real database (half after flush+reopen); compared with an independent reference evaluator (ties of ORDER BY: any permutation among equal keys). Distinct = query text; non-trivial = the expected result is not empty."
	c.Assume = []string{"NULL operands are excluded (the property says so)", "names of unnamed select-list expressions are not judged"}
	drv := mustDriver(c, false)
	n := 100
	if !core.Quick(c) {
		n = 3000
	}
	core.ParallelFor(n+2, c.Workers, func(i int) {
		r := core.NewRand(core.SubSeed(c.Seed, "C05", i))
		g := &gen.SQLGen{R: r}
		m := model.NewDB()
		g.DB = m
		sc := &sqlCase{reopen: i%2 == 1}
		if i >= n {
			// truth table: every AND/OR shape up to 4 predicates
			ct := &proto.Stmt{Kind: "create", Table: "tt", Defs: []proto.ColDef{{Name: "p", Type: "boolean"}, {Name: "q", Type: "boolean"}, {Name: "r", Type: "boolean"}, {Name: "s", Type: "boolean"}, {Name: "id", Type: "int"}}}
			ins := &proto.Stmt{Kind: "insert", Table: "tt"}
			for v := 0; v < 16; v++ {
				ins.Rows = append(ins.Rows, []proto.Val{proto.Bool(v&1 != 0), proto.Bool(v&2 != 0), proto.Bool(v&4 != 0), proto.Bool(v&8 != 0), proto.Int(int64(v))})
			}
			sc.setup = []*proto.Stmt{ct, ins}
			applyAll(m, sc.setup)
			cols := []string{"p", "q", "r", "s"}
			for np := 1; np <= 4; np++ {
				for si, shape := range gen.Shapes(np) {
					for variant := 0; variant < 3; variant++ {
						k := 0
						cond := gen.BoolShape(shape, func() *proto.Cond {
							col := cols[k%4]
							k++
							op, lit := "=", true
							if variant == 1 && k%2 == 0 {
								lit = false
							}
							if variant == 2 && k%2 == 1 {
								op = "!="
							}
							return &proto.Cond{Op: op, LHS: model.ColOp(col), RHS: model.LitOp(proto.Bool(lit))}
						})
						q := &proto.NStmt{Kind: "select", From: []proto.NTable{{Name: "tt"}}, Where: cond,
							Items: []proto.NItem{{Kind: "expr", Expr: &proto.Cond{Op: "val", LHS: model.ColOp("id")}}}}
						sc.queries = append(sc.queries, q)
						sc.texts = append(sc.texts, model.RenderN(q, randStyle(r)))
						sc.tags = append(sc.tags, fmt.Sprintf("shape%d_%d", np, si))
						sc.expectErr = append(sc.expectErr, false)
						c.Count("boolean_shapes_enumerated", 1)
					}
				}
			}
			runSQLCase(c, "C05", drv, i, sc, m)
			return
		}
		rows := r.Intn(41)
		if r.Chance(1, 8) {
			rows = 0
		}
		// the table is 2-5 columns wide (u and a always there)
		drop := [][]string{nil, nil, {"b"}, {"s", "f"}, {"b", "s"}, {"b", "s", "f"}, {"f"}}[r.Intn(7)]
		ct, ins := g.ShapedTable("t1", rows, drop)
		sc.setup = []*proto.Stmt{ct}
		if rows > 0 {
			sc.setup = append(sc.setup, ins)
		}
		applyAll(m, sc.setup)
		t := m.Table("t1")
		c.Count(fmt.Sprintf("tables_of_%d_columns", len(t.Cols)), 1)
		for k := 0; k < 40; k++ {
			q := g.Select5(t)
			if !q.Star && len(q.Items) > len(t.Cols) {
				c.Count("select_lists_longer_than_the_table_is_wide", 1)
			}
			sc.queries = append(sc.queries, q)
			sc.texts = append(sc.texts, model.RenderN(q, randStyle(r)))
			sc.tags = append(sc.tags, clauseTag(q))
			sc.expectErr = append(sc.expectErr, false)
		}
		// an alias that is the name of another column of the table: WHERE
		// (which sees the table's column) pins that column to a literal, ORDER
		// BY (which sees the alias) sorts by the aliased column
		for k := 0; k < 3 && len(t.Cols) == 5; k++ {
			shadowed := []string{"a", "s", "f", "b"}[r.Intn(4)]
			typ := map[string]string{"a": "int", "s": "varchar", "f": "boolean", "b": "bigint"}[shadowed]
			src := []string{"u", "u", "a", "s", "b"}[r.Intn(5)]
			if src == shadowed {
				src = "u"
			}
			q := &proto.NStmt{Kind: "select", From: []proto.NTable{{Name: "t1"}},
				Items:   []proto.NItem{{Kind: "expr", Expr: &proto.Cond{Op: "val", LHS: model.ColOp(src)}, Alias: shadowed}},
				Where:   &proto.Cond{Op: "=", LHS: model.ColOp(shadowed), RHS: model.LitOp(g.LitFor(typ))},
				OrderBy: []proto.NOrder{{Col: proto.Operand{Col: shadowed}, Desc: r.Bool()}}}
			if r.Bool() {
				q.Where = model.And(q.Where, &proto.Cond{Op: ">=", LHS: model.ColOp("u"), RHS: model.LitOp(proto.Int(int64(r.Intn(5))))})
			}
			if r.Chance(1, 3) {
				q.Items = append(q.Items, proto.NItem{Kind: "expr", Expr: &proto.Cond{Op: "val", LHS: model.ColOp("u")}, Alias: "uu"})
			}
			if r.Chance(1, 3) {
				q.HasLimit, q.Limit = true, r.Range(1, 5)
			}
			sc.queries = append(sc.queries, q)
			sc.texts = append(sc.texts, model.RenderN(q, randStyle(r)))
			sc.tags = append(sc.tags, "alias_shadows_a_pinned_column")
			sc.expectErr = append(sc.expectErr, false)
		}
		// a second table with the same column names in the opposite order; an
		// ill-typed condition on the first table (refused while its rows are
		// looked at - not judged), then a query without WHERE on the second
		// one with a comparison on the same-named column in its select list:
		// whatever the refused query leaves behind must not reach the next one
		{
			ct2 := &proto.Stmt{Kind: "create", Table: "t2"}
			for k := len(ct.Defs) - 1; k >= 0; k-- {
				ct2.Defs = append(ct2.Defs, ct.Defs[k])
			}
			ins2 := &proto.Stmt{Kind: "insert", Table: "t2"}
			if rows > 0 {
				for _, row := range ins.Rows[:min(len(ins.Rows), 12)] {
					var rv []proto.Val
					for k := len(row) - 1; k >= 0; k-- {
						rv = append(rv, row[k])
					}
					ins2.Rows = append(ins2.Rows, rv)
				}
			}
			extra := []*proto.Stmt{ct2}
			if len(ins2.Rows) > 0 {
				extra = append(extra, ins2)
			}
			if applyAll(m, extra) {
				sc.setup = append(sc.setup, extra...)
				if sc.notJudged == nil {
					sc.notJudged = map[int]bool{}
				}
				for k := 0; k < 4; k++ {
					col := t.Cols[r.Intn(len(t.Cols))]
					var bad, good *proto.Cond
					switch col.Type {
					case "varchar":
						bad = &proto.Cond{Op: ">", LHS: model.ColOp(col.Name), RHS: model.LitOp(proto.Int(5))}
						good = &proto.Cond{Op: "=", LHS: model.ColOp(col.Name), RHS: model.LitOp(g.LitFor("varchar"))}
					case "boolean":
						bad = &proto.Cond{Op: ">", LHS: model.ColOp(col.Name), RHS: model.LitOp(proto.Int(1))}
						good = &proto.Cond{Op: "=", LHS: model.ColOp(col.Name), RHS: model.LitOp(proto.Bool(r.Bool()))}
					default:
						bad = &proto.Cond{Op: ">=", LHS: model.ColOp(col.Name), RHS: model.LitOp(proto.Str("x"))}
						good = &proto.Cond{Op: []string{">", "<", "="}[r.Intn(3)], LHS: model.ColOp(col.Name), RHS: model.LitOp(g.LitFor("int"))}
					}
					poison := &proto.NStmt{Kind: "select", From: []proto.NTable{{Name: "t1"}}, Where: bad,
						Items: []proto.NItem{{Kind: "expr", Expr: &proto.Cond{Op: "val", LHS: model.ColOp("u")}}}}
					if k%2 == 1 {
						poison.Where = model.Or(&proto.Cond{Op: "=", LHS: model.ColOp("u"), RHS: model.LitOp(proto.Int(-1))}, bad)
					}
					sc.notJudged[len(sc.queries)] = true
					sc.queries = append(sc.queries, poison)
					sc.texts = append(sc.texts, model.RenderN(poison, model.Plain))
					sc.tags = append(sc.tags, "ill_typed_not_judged")
					sc.expectErr = append(sc.expectErr, false)
					victim := &proto.NStmt{Kind: "select", From: []proto.NTable{{Name: "t2"}},
						Items:   []proto.NItem{{Kind: "expr", Expr: good, Alias: "x"}, {Kind: "expr", Expr: &proto.Cond{Op: "val", LHS: model.ColOp("u")}}},
						OrderBy: []proto.NOrder{{Col: proto.Operand{Col: "u"}}}}
					sc.queries = append(sc.queries, victim)
					sc.texts = append(sc.texts, model.RenderN(victim, randStyle(r)))
					sc.tags = append(sc.tags, "after_a_refused_query_same_named_column_elsewhere")
					sc.expectErr = append(sc.expectErr, false)
				}
			}
		}
		// queries that differ from one another only in the blanks inside a
		// string literal, written identically otherwise, one after the other
		if i%4 == 0 && len(t.Cols) == 5 {
			for _, w := range []string{"a b", "a  b", " a b", "a b", "ab"} {
				q := &proto.NStmt{Kind: "select", From: []proto.NTable{{Name: "t1"}}, Where: &proto.Cond{Op: []string{"=", "!="}[i/4%2], LHS: model.ColOp("s"), RHS: model.LitOp(proto.Str(w))},
					Items:   []proto.NItem{{Kind: "expr", Expr: &proto.Cond{Op: "val", LHS: model.ColOp("u")}}, {Kind: "expr", Expr: &proto.Cond{Op: "val", LHS: model.LitOp(proto.Str(w))}, Alias: "tag"}},
					OrderBy: []proto.NOrder{{Col: proto.Operand{Col: "u"}}}}
				sc.queries = append(sc.queries, q)
				sc.texts = append(sc.texts, model.RenderN(q, model.Plain))
				sc.tags = append(sc.tags, "whitespace_twins")
				sc.expectErr = append(sc.expectErr, false)
				c.Count("whitespace_twin_queries", 1)
			}
		}
		runSQLCase(c, "C05", drv, i, sc, m)
	})
	return []core.Floor{{Key: "select_lists_longer_than_the_table_is_wide", Min: 50}, {Key: "whitespace_twin_queries", Min: 30}, {Key: "queries", Min: 2000}, {Key: "results_equal_to_reference", Min: 1000}, {Key: "boolean_shapes_enumerated", Min: 45}}
}

// ---------- C06 ----------

func checkC06(c *core.Ctx) []core.Floor {
	c.Rule = "up to three tables of 0-12 rows sharing column names (one case in 25 also joins two tables of 220-420 rows with many duplicate keys: tens of thousands of pairs), with duplicate and missing join keys and empty sides; chains of 1-2 joins mixing INNER (with and without the keyword), LEFT, RIGHT, ON = key equality optionally combined with further comparisons, self-joins under two aliases, qualifier = alias when given else table name; compared as multisets with join-by-definition over the model (NULL padding explicit). Ambiguity probes: an unqualified name that exists on both sides (of two or three tables, filled or empty) must be rejected with an error wherever it stands: bare in the select list, inside a comparison or a later AND/OR term of the select list, in WHERE (first or later term), in ON (first or later term), in ORDER BY, as COUNT's argument, in GROUP BY. In addition, sessions of 8-20 statements (CREATE TABLE / INSERT / UPDATE / DELETE) ask inner, left, right and self joins over the catalog tables sys_pages / sys_schema after every statement; the pairs for the tables created so far must be those of the model of what was created (not of another read of the catalog). Distinct = query text; non-trivial = non-empty expected result or an ambiguity probe."
	c.Assume = []string{"join keys are non-NULL (the property says so); a side that may have been NULL-padded by an earlier outer join is only compared with = against a stored column"}
	drv := mustDriver(c, false)
	n := 100
	if !core.Quick(c) {
		n = 2500
	}
	core.ParallelFor(n, c.Workers, func(i int) {
		r := core.NewRand(core.SubSeed(c.Seed, "C06", i))
		m := model.NewDB()
		g := &gen.SQLGen{R: r, DB: m}
		sc := &sqlCase{reopen: i%3 == 1}
		var tables []*model.Table
		for ti := 0; ti < 3; ti++ {
			rows := r.Intn(13)
			if r.Chance(1, 6) {
				rows = 0
			}
			// tables of different widths: the first one wide, the later ones
			// narrower now and then (a star schema)
			var drop []string
			var extra []proto.ColDef
			if r.Chance(1, 2) {
				switch ti {
				case 0:
					for k, ne := 0, r.Range(1, 4); k < ne; k++ {
						extra = append(extra, proto.ColDef{Name: fmt.Sprintf("x%d", k), Type: []string{"int", "varchar", "boolean"}[r.Intn(3)], Len: 12})
					}
				default:
					drop = [][]string{{"f"}, {"s", "f"}, {"b", "s", "f"}, {"b", "f"}}[r.Intn(4)]
				}
			}
			ct, ins := g.ShapedTable(fmt.Sprintf("t%d", ti+1), rows, drop, extra...)
			c.Count(fmt.Sprintf("table_width_%d", len(ct.Defs)), 1)
			sc.setup = append(sc.setup, ct)
			if rows > 0 {
				sc.setup = append(sc.setup, ins)
			}
		}
		applyAll(m, sc.setup)
		for ti := 0; ti < 3; ti++ {
			tables = append(tables, m.Table(fmt.Sprintf("t%d", ti+1)))
		}
		for k := 0; k < 30; k++ {
			q := g.Join6(tables)
			seq := ""
			for _, f := range q.From[1:] {
				seq += f.Join[:1]
			}
			self := ""
			if len(q.From) > 1 && q.From[0].Name == q.From[1].Name {
				self = "_self"
			}
			sc.queries = append(sc.queries, q)
			sc.texts = append(sc.texts, model.RenderN(q, randStyle(r)))
			sc.tags = append(sc.tags, "joins_"+seq+self)
			sc.expectErr = append(sc.expectErr, false)
		}
		if i%25 == 3 {
			// two tables of hundreds of rows with many duplicate keys: the
			// join has to look at tens of thousands of pairs
			for bi, name := range []string{"big1", "big2"} {
				ct, ins := g.ShapedTable(name, r.Range(260, 420)-40*bi, []string{"b", "s", "f"})
				sc.setup = append(sc.setup, ct, ins)
				applyAll(m, []*proto.Stmt{ct, ins})
			}
			for k := 0; k < 4; k++ {
				l, rt := "big1", "big2"
				if k == 3 {
					l, rt = "big2", "big1"
				}
				lc, rc := []string{"a", "a", "u", "a"}[k], []string{"a", "a", "a", "u"}[k]
				q := &proto.NStmt{Kind: "select", Star: true, From: []proto.NTable{{Name: l}, {Name: rt, Join: []string{"inner", "inner", "left", "inner"}[k],
					On: &proto.Cond{Op: "=", LHS: model.QColOp(l, lc), RHS: model.QColOp(rt, rc)}}}}
				if k == 1 {
					q.From[0].Alias, q.From[1].Alias = "x", "y"
					q.From[1].On = &proto.Cond{Op: "=", LHS: model.QColOp("x", lc), RHS: model.QColOp("y", rc)}
				}
				sc.queries = append(sc.queries, q)
				sc.texts = append(sc.texts, model.RenderN(q, randStyle(r)))
				sc.tags = append(sc.tags, "joins_of_hundreds_of_rows")
				sc.expectErr = append(sc.expectErr, false)
			}
		}
		// ambiguity probes
		for k := 0; k < 10; k++ {
			q := &proto.NStmt{Kind: "select", From: []proto.NTable{{Name: "t1"}, {Name: "t2", Join: []string{"inner", "left", "right"}[r.Intn(3)],
				On: &proto.Cond{Op: "=", LHS: model.QColOp("t1", "u"), RHS: model.QColOp("t2", "u")}}}}
			if r.Chance(1, 3) {
				// three tables: the name may be ambiguous between the first and the last only
				q.From = append(q.From, proto.NTable{Name: "t3", Join: []string{"inner", "left", "right"}[r.Intn(3)],
					On: &proto.Cond{Op: "=", LHS: model.QColOp("t2", "u"), RHS: model.QColOp("t3", "u")}})
			}
			// a name that at least two of the joined tables have (tables differ in width)
			var shared []string
			for _, name := range []string{"a", "u", "s", "b", "f"} {
				n := 0
				for _, ft := range q.From {
					for _, cl := range m.Table(ft.Name).Cols {
						if cl.Name == name {
							n++
						}
					}
				}
				if n >= 2 {
					shared = append(shared, name)
				}
			}
			col := shared[r.Intn(len(shared))]
			typ := map[string]string{"a": "int", "u": "int", "s": "varchar", "b": "bigint", "f": "boolean"}[col]
			cmp := func() *proto.Cond { // the bare name inside a comparison, on either side
				c := &proto.Cond{Op: "=", LHS: model.ColOp(col), RHS: model.LitOp(g.LitFor(typ))}
				if r.Bool() {
					c.LHS, c.RHS = c.RHS, c.LHS
				}
				return c
			}
			fine := &proto.Cond{Op: "=", LHS: model.QColOp("t1", "u"), RHS: model.LitOp(proto.Int(1))}
			pos := ""
			switch k {
			case 0: // in the select list
				pos = "select_list"
				q.Items = []proto.NItem{{Kind: "expr", Expr: &proto.Cond{Op: "val", LHS: model.ColOp(col)}}}
			case 1: // in WHERE
				pos = "where"
				q.Star = true
				q.Where = cmp()
			case 2: // in ON (only t1 and t2 are visible there)
				pos = "on"
				q.Star = true
				col = []string{"a", "u"}[r.Intn(2)]
				q.From[1].On = &proto.Cond{Op: "=", LHS: model.ColOp(col), RHS: model.QColOp("t2", col)}
			case 3: // inside a comparison in the select list
				pos = "select_list_comparison"
				q.Items = []proto.NItem{{Kind: "expr", Expr: &proto.Cond{Op: "val", LHS: model.QColOp("t1", "u")}}, {Kind: "expr", Expr: cmp()}}
			case 4: // second operand of an AND / OR in the select list
				pos = "select_list_comparison"
				e := model.Or(fine, cmp())
				if r.Bool() {
					e = model.And(fine, cmp())
				}
				q.Items = []proto.NItem{{Kind: "expr", Expr: e}}
			case 5: // later term of WHERE
				pos = "where_later_term"
				q.Star = true
				q.Where = model.And(fine, cmp())
				if r.Bool() {
					q.Where = model.Or(fine, cmp())
				}
			case 6: // later term of ON (only t1 and t2 are visible there)
				pos = "on_later_term"
				q.Star = true
				col, typ = []string{"a", "u"}[r.Intn(2)], "int"
				q.From[1].On = model.And(q.From[1].On, cmp())
			case 7: // ORDER BY
				pos = "order_by"
				q.Star = true
				q.OrderBy = []proto.NOrder{{Col: proto.Operand{Col: col}, Desc: r.Bool()}}
			case 8: // argument of COUNT
				pos = "count_argument"
				q.Items = []proto.NItem{{Kind: "count", Arg: &proto.Operand{Col: col}}}
			default: // GROUP BY column
				pos = "group_by"
				q.Items = []proto.NItem{{Kind: "expr", Expr: &proto.Cond{Op: "val", LHS: model.ColOp(col)}}, {Kind: "count"}}
				q.GroupBy = []proto.Operand{{Col: col}}
			}
			if k == 9 && len(q.From) == 2 {
				q.From = append(q.From, proto.NTable{Name: "t3", Join: []string{"inner", "left", "right"}[r.Intn(3)],
					On: &proto.Cond{Op: "=", LHS: model.QColOp("t2", "u"), RHS: model.QColOp("t3", "u")}})
			}
			if k == 9 {
				// partial overlap: a name that only ONE of the first two tables
				// has is used unqualified (legitimately) in the first ON, and
				// again after a third table that also has it was joined
				var only []string
				for _, name := range []string{"b", "s", "f"} {
					has := func(tn string) bool {
						for _, cl := range m.Table(tn).Cols {
							if cl.Name == name {
								return true
							}
						}
						return false
					}
					if has("t1") != has("t2") && has("t3") {
						only = append(only, name)
					}
				}
				if len(only) > 0 {
					col = only[r.Intn(len(only))]
					typ = map[string]string{"s": "varchar", "b": "bigint", "f": "boolean"}[col]
					pos = "after_legitimate_use_in_an_earlier_on"
					q.Items, q.GroupBy, q.Star = nil, nil, true
					q.From[1].On = model.And(&proto.Cond{Op: "=", LHS: model.QColOp("t1", "u"), RHS: model.QColOp("t2", "u")}, cmp())
					switch r.Intn(3) {
					case 0:
						q.From[2].On = model.And(q.From[2].On, cmp())
					case 1:
						q.Where = cmp()
					default:
						q.OrderBy = []proto.NOrder{{Col: proto.Operand{Col: col}}}
					}
				}
			}
			c.Count("ambiguity_probe_in_"+pos, 1)
			sc.queries = append(sc.queries, q)
			sc.texts = append(sc.texts, model.RenderN(q, randStyle(r)))
			sc.tags = append(sc.tags, "ambiguity_probe")
			sc.expectErr = append(sc.expectErr, true)
		}
		// both sides of a join going by the same name (a table joined to
		// itself without correlation names, two tables given the same
		// correlation name): an unqualified column that exists on both sides
		// is ambiguous there as well
		for _, text := range []string{
			"SELECT * FROM t1 JOIN t1 ON u = u",
			"SELECT u FROM t1 JOIN t1 ON t1.a = t1.a",
			"SELECT * FROM t1 x JOIN t2 x ON u = 1",
			"SELECT a FROM t1 x LEFT JOIN t2 x ON x.u = x.u",
			"SELECT * FROM t1 x JOIN t2 x ON x.u = x.u WHERE a = 1",
		} {
			sc.queries = append(sc.queries, &proto.NStmt{Kind: "select", Star: true, From: []proto.NTable{{Name: "t1"}}})
			sc.texts = append(sc.texts, text)
			sc.tags = append(sc.tags, "ambiguity_probe")
			sc.expectErr = append(sc.expectErr, true)
			c.Count("ambiguity_probe_both_sides_under_one_name", 1)
		}
		runSQLCase(c, "C06", drv, i, sc, m)
	})
	core.ParallelFor(n/2, c.Workers, func(i int) { runC06Catalog(c, drv, i) })
	fl := []core.Floor{{Key: "catalog_joins_compared", Min: 300}, {Key: "queries", Min: 2000}, {Key: "results_equal_to_reference", Min: 1000}, {Key: "ambiguity_rejected", Min: 50}}
	for _, a := range []string{"i", "l", "r"} {
		for _, b := range []string{"i", "l", "r"} {
			fl = append(fl, core.Floor{Key: "tag_joins_" + a + b, Min: 5})
		}
	}
	return fl
}

// ---------- C07 ----------

func checkC07(c *core.Ctx) []core.Floor {
	c.Rule = "tables of 0-30 rows with grouping columns whose printed forms collide when concatenated (('1','23') vs ('12','3'), (1,23) vs (12,3), 'true' vs true, empty strings), integer columns for AVG incl. extremes and sets whose running average rounds differently from the true average, a nullable column for COUNT(col); queries with 0-3 grouping columns written as a comma separated list, referenced by bare name, qualifier or alias, placed at any position of the select list, aggregates COUNT(*)/COUNT(col)/AVG(int)/AVG(bigint), optional WHERE, optional JOIN on top; compared as multisets with exact-sum reference (AVG exactly at .5: both neighbours accepted). Every query runs on three insertion orders of the same rows; the three results must also be equal to each other. In addition, sessions of 6-14 statements (CREATE TABLE / INSERT / UPDATE / DELETE) ask the same bare COUNT(*) and COUNT(col) after every statement, on every user table and on both catalog tables: the answer must be the number of (non-NULL) rows SELECT * returns at that moment. Distinct = query text; non-trivial = the input has at least two rows."
	c.Assume = []string{"AVG over integer columns only, NULLs only under COUNT(col)"}
	drv := mustDriver(c, false)
	n := 100
	if !core.Quick(c) {
		n = 2000
	}
	core.ParallelFor(n, c.Workers, func(i int) { runC07(c, drv, i) })
	core.ParallelFor(n/2, c.Workers, func(i int) { runC07Requery(c, drv, i) })
	return []core.Floor{{Key: "repeated_aggregates_compared", Min: 500}, {Key: "repeated_aggregates_on_catalog_tables", Min: 200}, {Key: "queries", Min: 2000}, {Key: "results_equal_to_reference", Min: 500}, {Key: "order_independence_checked", Min: 500},
		{Key: "group_cols_0", Min: 20}, {Key: "group_cols_1", Min: 20}, {Key: "group_cols_2", Min: 20}, {Key: "group_cols_3", Min: 20},
		{Key: "ref_by_alias", Min: 20}, {Key: "ref_by_qualifier", Min: 20}, {Key: "group_col_not_first", Min: 20}, {Key: "on_top_of_join", Min: 20}, {Key: "empty_input", Min: 5}, {Key: "group_by_same_named_columns_of_both_join_sides", Min: 20}}
}

func runC07(c *core.Ctx, drv string, idx int) {
	r := core.NewRand(core.SubSeed(c.Seed, "C07", idx))
	m := model.NewDB()
	g := &gen.SQLGen{R: r, DB: m}
	nrows := r.Intn(31)
	if r.Chance(1, 8) {
		nrows = 0
	}
	ct, rows := g.AggTable("p0", nrows)
	sc := &sqlCase{reopen: idx%4 == 1}
	// three insertion orders
	for p := 0; p < 3; p++ {
		name := fmt.Sprintf("p%d", p)
		cc := *ct
		cc.Table = name
		sc.setup = append(sc.setup, &cc)
		perm := append([][]proto.Val(nil), rows...)
		if p == 1 {
			for i, j := 0, len(perm)-1; i < j; i, j = i+1, j-1 {
				perm[i], perm[j] = perm[j], perm[i]
			}
		}
		if p == 2 {
			for i := len(perm) - 1; i > 0; i-- {
				j := r.Intn(i + 1)
				perm[i], perm[j] = perm[j], perm[i]
			}
		}
		if len(perm) > 0 {
			sc.setup = append(sc.setup, &proto.Stmt{Kind: "insert", Table: name, Rows: perm})
		}
	}
	dim := &proto.Stmt{Kind: "create", Table: "dim", Defs: []proto.ColDef{{Name: "k", Type: "int"}, {Name: "label", Type: "varchar", Len: 10}}}
	dimRows := &proto.Stmt{Kind: "insert", Table: "dim", Rows: [][]proto.Val{{proto.Int(1), proto.Str("one")}, {proto.Int(1), proto.Str("uno")}, {proto.Int(7), proto.Str("seven")}}}
	dim2 := &proto.Stmt{Kind: "create", Table: "dim2", Defs: []proto.ColDef{{Name: "gi", Type: "int"}, {Name: "gj", Type: "int"}}}
	dim2Rows := &proto.Stmt{Kind: "insert", Table: "dim2", Rows: [][]proto.Val{{proto.Int(1), proto.Int(23)}, {proto.Int(12), proto.Int(23)}, {proto.Int(5), proto.Int(3)}, {proto.Int(1), proto.Int(3)}, {proto.Int(7), proto.Int(99)}}}
	sc.setup = append(sc.setup, dim, dimRows, dim2, dim2Rows)
	if !applyAll(m, sc.setup) {
		c.Inconclusive("generator", "C07 setup rejected by model")
		return
	}
	nq := 12
	for k := 0; k < nq; k++ {
		join := ""
		if r.Chance(1, 4) {
			join = "dim"
		} else if r.Chance(1, 10) {
			join = "aliastwin"
			c.Count("grouping_column_aliased_to_the_name_of_another_grouping_column", 1)
		} else if r.Chance(1, 8) {
			join = "both"
			c.Count("three_table_join_with_narrow_tables", 1)
		} else if r.Chance(1, 6) {
			join = "dim2"
			c.Count("group_by_same_named_columns_of_both_join_sides", 1)
		}
		q0 := g.Agg7("p0", join)
		st := randStyle(r)
		for p := 0; p < 3; p++ {
			q := *q0
			q.From = append([]proto.NTable(nil), q0.From...)
			q.From[0].Name = fmt.Sprintf("p%d", p)
			if q.From[0].Alias == "" {
				// qualifier = table name: rewrite qualified references
				q = requalify(q, "p0", q.From[0].Name)
			}
			if join == "aliastwin" {
				if sc.mayRefuse == nil {
					sc.mayRefuse = map[int]bool{}
				}
				sc.mayRefuse[len(sc.queries)] = true
			}
			sc.queries = append(sc.queries, &q)
			st.R = core.NewRand(uint64(idx*1000 + k)) // same rendering for the three
			sc.texts = append(sc.texts, model.RenderN(&q, st))
			tag := fmt.Sprintf("group%d", len(q.GroupBy))
			sc.tags = append(sc.tags, tag)
			sc.expectErr = append(sc.expectErr, false)
		}
		c.Count(fmt.Sprintf("group_cols_%d", len(q0.GroupBy)), 1)
		for gi, gb := range q0.GroupBy {
			_ = gi
			if gb.Qual != "" {
				c.Count("ref_by_qualifier", 1)
			}
			if strings.HasPrefix(gb.Col, "grp") {
				c.Count("ref_by_alias", 1)
			}
		}
		if len(q0.GroupBy) > 0 && q0.Items[0].Kind != "expr" {
			c.Count("group_col_not_first", 1)
		}
		if join != "" {
			c.Count("on_top_of_join", 1)
		}
		if nrows == 0 {
			c.Count("empty_input", 1)
		}
	}
	// aggregates over conditions that differ from one another only in the
	// blanks inside a string literal ('1 2' is a value of g1, '1  2' is not),
	// written identically otherwise, one after the other
	if idx%3 == 0 {
		for _, w := range []string{"1 2", "1  2", "1 2", " 1 2", "1\t2"} {
			for p := 0; p < 3; p++ {
				q := &proto.NStmt{Kind: "select", From: []proto.NTable{{Name: fmt.Sprintf("p%d", p)}},
					Where: &proto.Cond{Op: "=", LHS: model.ColOp("g1"), RHS: model.LitOp(proto.Str(w))},
					Items: []proto.NItem{{Kind: "count"}, {Kind: "count", Arg: &proto.Operand{Col: "n0"}}, {Kind: "avg", Arg: &proto.Operand{Col: "gi"}}}}
				sc.queries = append(sc.queries, q)
				sc.texts = append(sc.texts, model.RenderN(q, model.Plain))
				sc.tags = append(sc.tags, "whitespace_twins")
				sc.expectErr = append(sc.expectErr, false)
				c.Count("whitespace_twin_aggregates", 1)
			}
		}
	}
	// run and judge against the reference
	runSQLCaseKeep(c, "C07", drv, idx, sc, m, func(results [][][]proto.Val, errs []string) {
		// order independence: the three permutations must agree with each other
		for k := 0; k+2 < len(results); k += 3 {
			if errs[k] != "" || errs[k+1] != "" || errs[k+2] != "" {
				continue
			}
			if q := sc.queries[k]; len(q.GroupBy) > 0 && (q.HasLimit || q.HasOffset) {
				// which groups fall into the LIMIT/OFFSET window of an
				// unordered grouped result is not determined by the property
				continue
			}
			c.Count("order_independence_checked", 1)
			for p := 1; p < 3; p++ {
				if !plainMultisetEqual(results[k], results[k+p]) {
					// known defect? both results are exactly what re-rounding a
					// running average gives for their own row order
					e0, err0 := m.EvalSelect(sc.queries[k])
					e1, err1 := m.EvalSelect(sc.queries[k+p])
					if err0 == nil && err1 == nil && plainMultisetEqual(model.ReroundedRows(e0), results[k]) && plainMultisetEqual(model.ReroundedRows(e1), results[k+p]) {
						c.Violation("C07:avg-is-rerounded-running-average", fmt.Sprintf("AVG depends on the row order (running average re-rounded after every row):\n%s\n%v\nvs\n%s\n%v", sc.texts[k], results[k], sc.texts[k+p], results[k+p]),
							map[string]interface{}{"case": idx, "query": sc.texts[k], "tables": tablesBrief(m, sc.queries[k]), "other_order": tablesBrief(m, sc.queries[k+p])})
						break
					}
					c.Violation("C07:result-depends-on-row-order", fmt.Sprintf("same rows inserted in another order give a different result:\n%s\n%v\nvs\n%s\n%v", sc.texts[k], results[k], sc.texts[k+p], results[k+p]),
						map[string]interface{}{"case": idx, "query": sc.texts[k], "tables": tablesBrief(m, sc.queries[k]), "other_order": tablesBrief(m, sc.queries[k+p])})
					break
				}
			}
		}
	})
}

func requalify(q proto.NStmt, from, to string) proto.NStmt {
	fix := func(o *proto.Operand) *proto.Operand {
		if o == nil || o.Qual != from {
			return o
		}
		n := *o
		n.Qual = to
		return &n
	}
	var fixCond func(c *proto.Cond) *proto.Cond
	fixCond = func(c *proto.Cond) *proto.Cond {
		if c == nil {
			return nil
		}
		n := *c
		n.L, n.R = fixCond(c.L), fixCond(c.R)
		n.LHS, n.RHS = fix(c.LHS), fix(c.RHS)
		return &n
	}
	items := append([]proto.NItem(nil), q.Items...)
	for i := range items {
		items[i].Expr = fixCond(items[i].Expr)
		items[i].Arg = fix(items[i].Arg)
	}
	q.Items = items
	gb := append([]proto.Operand(nil), q.GroupBy...)
	for i := range gb {
		gb[i] = *fix(&gb[i])
	}
	q.GroupBy = gb
	ob := append([]proto.NOrder(nil), q.OrderBy...)
	for i := range ob {
		ob[i].Col = *fix(&ob[i].Col)
	}
	q.OrderBy = ob
	q.Where = fixCond(q.Where)
	from2 := append([]proto.NTable(nil), q.From...)
	for i := range from2 {
		from2[i].On = fixCond(from2[i].On)
	}
	q.From = from2
	return q
}

func plainMultisetEqual(a, b [][]proto.Val) bool {
	if len(a) != len(b) {
		return false
	}
	cnt := map[string]int{}
	key := func(r []proto.Val) string {
		var p []string
		for _, v := range r {
			p = append(p, v.Enc())
		}
		return strings.Join(p, "|")
	}
	for _, r := range a {
		cnt[key(r)]++
	}
	for _, r := range b {
		cnt[key(r)]--
	}
	for _, v := range cnt {
		if v != 0 {
			return false
		}
	}
	return true
}

// errKind reduces an error text to its kind: identifiers and literals at the
// end (": name") are dropped so that one cause is one signature.
func errKind(e string) string {
	e = digits.ReplaceAllString(e, "N")
	parts := strings.Split(e, ": ")
	for len(parts) > 1 && !strings.Contains(parts[len(parts)-1], " ") {
		parts = parts[:len(parts)-1]
	}
	e = strings.Join(parts, ": ")
	if i := strings.Index(e, "`"); i >= 0 {
		e = e[:i]
	}
	if len(e) > 80 {
		e = e[:80]
	}
	return strings.TrimSpace(e)
}
