package main

import (
	"encoding/hex"
	"encoding/json"
	"fmt"
	"os"
	"path/filepath"
	"strings"

	"verif/harness/internal/core"
	"verif/harness/internal/gen"
	"verif/harness/internal/model"
	"verif/harness/proto"
)

func init() {
	checks["C20"] = checkC20
}

type c20Stream struct {
	Hex      string   `json:"hex"`
	Chunks   []int    `json:"chunks"`
	Expected []string `json:"expected"`
	// not sent
	typed    string
	mode     string
	hazard   string
	perLine  int
	maxLines int
	// a literal was typed with line breaks in the place of its blanks
	brokenLit bool
}

type c20Tok struct {
	T int    `json:"t"`
	X string `json:"x"`
}

type c20Out struct {
	Lines [][]string `json:"lines"`
	Err   string     `json:"err"`
	Panic string     `json:"panic"`
	Got   [][]c20Tok `json:"got"`
	Want  [][]c20Tok `json:"want"`
	Reads int        `json:"reads"`
}

func hazardOf(tokens []string) string {
	h := ""
	for _, t := range tokens {
		if len(t) >= 2 && (t[0] == '\'' || t[0] == '"') {
			in := t[1 : len(t)-1]
			if strings.Contains(in, ";") {
				if t[0] == '\'' {
					h += "semicolon_in_single_quotes "
				} else {
					h += "semicolon_in_double_quotes "
				}
			}
			if t[0] == '\'' && strings.Contains(in, `"`) || t[0] == '"' && strings.Contains(in, "'") {
				h += "other_quote_inside "
			}
			if strings.Contains(in, " ") {
				h += "space_inside "
			}
		}
	}
	return strings.TrimSpace(h)
}

func genC20Stream(r *core.Rand, g *gen.StmtGen, long bool) c20Stream {
	ns := r.Range(1, 8)
	var st c20Stream
	var typed strings.Builder
	hz := map[string]bool{}
	stmtsOnLine, maxOnLine := 0, 0
	linesOfStmt, maxLinesOfStmt := 1, 1
	var prevToks []string
	// one stream in eight: literals typed over several lines (Enter in the
	// place of a blank inside the quotes)
	breakLits := !long && r.Chance(1, 8)
	// one stream in six arrives as a bracketed paste (ESC [200~ ... ESC [201~,
	// what a terminal sends for a paste once an application has asked for it):
	// several lines and statements inside one paste, and characters that are
	// keys when typed - a tab - inside its literals
	bracketed := !long && !breakLits && r.Chance(1, 6)
	for i := 0; i < ns; i++ {
		var n *proto.NStmt
		if prevToks != nil && r.Chance(1, 6) {
			// the statement typed just before, typed once more
			n = nil
		} else if r.Chance(1, 3) {
			// literal hazards on purpose
			lits := []string{"a;b", ";", "x ; y", `say "hi"`, "it; is", "SELECT;", "two  spaces", ";;", "end;", "می\u200cخواهم;", "👨\u200d👩\u200d👧", "co\u00adoperate", "zero\u200bwidth", "\ufeffbom; x"}
			if bracketed {
				lits = append(lits, "tab\there; x", "a\tb", "\tlead", "col1\tcol2\tcol3;")
			}
			if breakLits {
				lits = []string{"x ; y", "one two; three", "a b c", "first; second; third; fourth", "; ; ;", "it; is", "select 1; select 2; select 3"}
			}
			n = &proto.NStmt{Kind: "insert", Name: "t", Rows: [][]proto.Val{{proto.Int(int64(i)), proto.Str(lits[r.Intn(len(lits))])}}}
			if r.Bool() {
				n = &proto.NStmt{Kind: "select", Star: true, From: []proto.NTable{{Name: []string{"t", "semi;colon", "o'hara", "my col"}[r.Intn(4)]}},
					Where: &proto.Cond{Op: "=", LHS: model.ColOp("s"), RHS: model.LitOp(proto.Str(lits[r.Intn(len(lits))]))}}
			}
		} else if long && i == 0 {
			// a long statement (pasting a multi-row INSERT of several KB is
			// ordinary use)
			n = &proto.NStmt{Kind: "insert", Name: "t"}
			for k, rows := 0, r.Range(60, 600); k < rows; k++ {
				n.Rows = append(n.Rows, []proto.Val{proto.Int(int64(k)), proto.Str(fmt.Sprintf("value number %d; with some text", k))})
			}
		} else {
			n = g.Any()
		}
		var toks []string
		if n == nil {
			toks = prevToks
			hz["repeated_statement"] = true
		} else {
			toks = append(model.RenderNTokens(n), ";")
		}
		prevToks = toks
		for _, h := range strings.Fields(hazardOf(toks)) {
			hz[h] = true
		}
		st.Expected = append(st.Expected, strings.Join(toks, " "))
		linesOfStmt = 1
		sp := func() string { return "   "[:r.Range(1, 3)] }
		indent := func() string {
			if r.Chance(1, 3) {
				return "    "[:r.Range(1, 4)] // indented continuation / script
			}
			return ""
		}
		if i == 0 && r.Chance(1, 6) {
			typed.WriteString(indent())
		}
		if r.Chance(1, 12) {
			// an empty statement (a semicolon of its own) before this one, on
			// the same line or not: it is nobody's business what becomes of
			// it, but the statements around it are handed over as they are
			typed.WriteString(";" + []string{"", " ", "\r", " \r"}[r.Intn(4)])
			hz["empty_statement"] = true
		}
		for ti, t := range toks {
			if breakLits && len(t) > 2 && t[0] == '\'' && strings.Contains(t, " ") {
				b := []byte(t)
				for x := range b {
					if b[x] == ' ' && r.Chance(2, 3) {
						b[x] = '\r'
						st.brokenLit = true
						linesOfStmt++
					}
				}
				typed.Write(b)
			} else {
				typed.WriteString(t)
			}
			last := ti == len(toks)-1
			switch {
			case last && i == ns-1:
				if r.Chance(1, 4) {
					typed.WriteString(sp()) // blanks after the last semicolon
				}
				typed.WriteString("\r")
			case last:
				// next statement on the same line or on a new one
				if r.Chance(1, 2) {
					typed.WriteString(sp())
					stmtsOnLine++
				} else {
					typed.WriteString("\r" + indent())
					stmtsOnLine = 0
				}
			default:
				if r.Chance(1, 6) {
					typed.WriteString("\r" + indent())
					if r.Chance(1, 6) {
						// an empty line inside the statement
						typed.WriteString("\r" + indent())
						hz["empty_line_inside_statement"] = true
					}
					linesOfStmt++
				} else {
					typed.WriteString(sp())
				}
			}
		}
		if stmtsOnLine+1 > maxOnLine {
			maxOnLine = stmtsOnLine + 1
		}
		if linesOfStmt > maxLinesOfStmt {
			maxLinesOfStmt = linesOfStmt
		}
	}
	st.typed = typed.String()
	if !long && !breakLits && !bracketed && r.Chance(1, 7) {
		// a typing error put right: the first line is typed with one character
		// left out, the cursor goes back with the left-arrow key, the character
		// is typed where it belongs, End, and the typing goes on. (The line has
		// 6, 14, 30, 62 or 126 characters at that moment in three cases of
		// four: sizes at which a buffer that doubles has just filled up.)
		s0 := st.typed
		end := strings.IndexByte(s0, '\r')
		if end < 0 {
			end = len(s0)
		}
		line := s0[:end]
		ascii := true
		for i := 0; i < len(line); i++ {
			if line[i] < 0x20 || line[i] > 0x7e {
				ascii = false
			}
		}
		if ascii && len(line) >= 8 {
			var fits []int
			for _, cc := range []int{6, 14, 30, 62, 126} {
				if cc+1 <= len(line) {
					fits = append(fits, cc)
				}
			}
			cc := r.Range(3, len(line)-1)
			if len(fits) > 0 && r.Chance(3, 4) {
				cc = fits[r.Intn(len(fits))]
			}
			pp := r.Intn(cc)
			fixed := line[:pp] + line[pp+1:cc+1] + strings.Repeat("\x1b[D", cc-pp) + string(line[pp]) + "\x05" + line[cc+1:]
			st.typed = fixed + s0[end:]
			hz["typing_error_put_right_in_mid_line"] = true
		}
	} else if !long && !breakLits && !bracketed && r.Chance(1, 8) {
		// a false start, given up: some text (with a semicolon in the middle,
		// an open quote, a line break that does not submit), then Ctrl-A and
		// Ctrl-K - the line is empty again - and the statements are typed
		junk := []string{"select 12345; oops\r", "select 'draft\r", "delete from t; x", "insert into t values (1, 'a;b') zz", "selec", "update t set a = \"x; \r y", "select 1; select 2; sel\rect"}[r.Intn(7)]
		st.typed = junk + "\x01\x0b" + st.typed
		hz["false_start_killed_with_ctrl_a_ctrl_k"] = true
	}
	if bracketed {
		st.typed = "\x1b[200~" + st.typed + "\x1b[201~"
		hz["bracketed_paste"] = true
	}
	st.Hex = hex.EncodeToString([]byte(st.typed))
	switch r.Intn(3) {
	case 0:
		st.mode, st.Chunks = "typed_byte_by_byte", []int{1}
	case 1:
		st.mode = "random_chunks"
		for k := 0; k < 7; k++ {
			st.Chunks = append(st.Chunks, r.Range(1, 9))
		}
	default:
		st.mode, st.Chunks = "pasted_full_reads", nil
	}
	if bracketed {
		st.mode = "bracketed_" + st.mode
	}
	var hs []string
	for h := range hz {
		hs = append(hs, h)
	}
	if st.brokenLit {
		hs = append(hs, "line_break_inside_literal")
	}
	st.hazard = strings.Join(hs, " ")
	st.perLine, st.maxLines = maxOnLine, maxLinesOfStmt
	return st
}

func checkC20(c *core.Ctx) []core.Floor {
	c.Rule = "lists of 1-8 statements (from the C10 grammar plus literals and quoted identifiers containing semicolons, the other quote kind, spaces, keywords, non-ASCII text incl. zero-width joiners / non-joiners, soft hyphens and a byte order mark), each terminated by a semicolon, entered with line breaks (Enter = CR, as in raw mode; now and then two in a row: an empty line inside the statement) at random token boundaries - and, in one stream in eight, inside literals in the place of their blanks (also right after a semicolon of the literal); for those streams white space inside tokens is not compared, everything else is - several statements per line or one statement over many lines, now and then the same statement twice in a row, now and then an empty statement (a semicolon of its own, whose fate is not judged) in front of a statement; delivered byte by byte, in random small chunks that split UTF-8 sequences, or as full 256-byte reads (a paste is a fast byte stream: the console never enables bracketed paste); one stream in six is wrapped in paste brackets all the same (ESC [200~ ... ESC [201~: what a terminal sends once an application has asked for bracketed paste), with several lines and statements inside one paste and tabs inside its literals - there ReadLine's paste indicator is taken as what its documentation says, an addition to valid data; one stream in eight begins with a false start (text with a semicolon in the middle, an open quote, a line break that does not submit) that is given up with Ctrl-A Ctrl-K before the statements are typed; one in seven has a typing error in its first line put right (a character left out, the cursor moved back with the arrow key, the character typed in mid-line, End). The real Terminal.ReadLine (driven in-package through a go test -overlay driver) is called until EOF; the submitted statements, tokenised with the real SQL tokenizer, must equal the typed statements one to one and in order. In addition 64 (quick) / 1600 (thorough) whole console sessions run end to end: the console's own runTerminal loop on a pseudo-terminal with a real engine.Session behind it, the keystrokes written to the pty master; the statements are INSERTs of (sequence number, literal) into one table, mixed with statements the engine rejects (unknown table, syntax error, type error) on the same and on other lines; afterwards the table must hold exactly the valid INSERTs' rows, once each and in order, literals intact. Distinct = keystroke stream + chunking; non-trivial = a literal contains a semicolon, or a line carries several statements, or a statement spans several lines."
	c.Assume = []string{"what a line break inside a literal should become (blank, line break, nothing) is not stated by the property: streams with such breaks are compared modulo white space inside tokens", "one stream in fifty carries a statement of 4-40 KB"}
	bin, err := buildOverlayTest(c, "cmd/console", "console_driver_test.go", "zz_verif_driver_test.go")
	if err != nil {
		fmt.Printf("BUILD-FAILED property=C20\n%v\n", err)
		c.Cleanup()
		os.Exit(3)
	}
	n := 3000
	if !core.Quick(c) {
		n = 100000
	}
	batch := 500
	nb := (n + batch - 1) / batch
	core.ParallelFor(nb, c.Workers, func(bi int) {
		r := core.NewRand(core.SubSeed(c.Seed, "C20", bi))
		g := &gen.StmtGen{R: r}
		var streams []c20Stream
		for i := 0; i < batch; i++ {
			long := i%50 == 7
			st := genC20Stream(r, g, long)
			if !long && len(st.typed) > 3500 {
				continue
			}
			if long {
				st.mode += "_long"
			}
			streams = append(streams, st)
		}
		dir := c.CaseDir("c20")
		defer removeAll(dir)
		in, outp := filepath.Join(dir, "in.json"), filepath.Join(dir, "out.json")
		b, _ := json.Marshal(streams)
		os.WriteFile(in, b, 0644)
		msg, err := runOverlayTest(bin, dir, in, outp)
		ob, rerr := os.ReadFile(outp)
		if err != nil || rerr != nil {
			c.Violation("C20:driver-died", "the console test process died: "+clip(msg, 500), map[string]interface{}{"batch": bi})
			return
		}
		var outs []c20Out
		if err := json.Unmarshal(ob, &outs); err != nil || len(outs) != len(streams) {
			c.Inconclusive("harness", "bad driver output")
			return
		}
		for i, st := range streams {
			judgeC20(c, st, outs[i])
		}
	})
	var e2eFloors []core.Floor
	if f, err := os.OpenFile("/dev/ptmx", os.O_RDWR, 0); err == nil {
		f.Close()
		checkC20EndToEnd(c, bin)
		e2eFloors = []core.Floor{{Key: "e2e_sessions", Min: 40}, {Key: "e2e_sessions_with_a_rejected_statement_before_a_valid_one_on_the_same_line", Min: 10}, {Key: "e2e_rows_compared", Min: 200}}
	} else {
		// runTerminal needs a terminal on descriptor 0; without /dev/ptmx only
		// the ReadLine layer is observed
		c.Assume = append(c.Assume, "no pseudo-terminal can be opened here ("+err.Error()+"): the end-to-end console sessions were skipped")
		c.Count("e2e_skipped_no_pty", 1)
	}
	return append(e2eFloors, []core.Floor{{Key: "streams", Min: 2000}, {Key: "streams_equal", Min: 500}, {Key: "hazard_semicolon_in_single_quotes", Min: 20}, {Key: "hazard_semicolon_in_double_quotes", Min: 20},
		{Key: "three_or_more_statements_on_one_line", Min: 20}, {Key: "statement_over_four_or_more_lines", Min: 20}, {Key: "mode_typed_byte_by_byte", Min: 100}, {Key: "mode_random_chunks", Min: 100}, {Key: "mode_pasted_full_reads", Min: 100}, {Key: "mode_bracketed_pasted_full_reads", Min: 20}, {Key: "mode_bracketed_typed_byte_by_byte", Min: 20}, {Key: "streams_with_a_statement_over_4096_characters", Min: 20}}...)
}

func judgeC20(c *core.Ctx, st c20Stream, o c20Out) {
	c.Count("streams", 1)
	c.Count("mode_"+st.mode, 1)
	if strings.HasSuffix(st.mode, "_long") {
		c.Count("streams_with_a_statement_over_4096_characters", 1)
		c.Max("longest_stream_bytes", int64(len(st.typed)))
	}
	for _, h := range strings.Fields(st.hazard) {
		c.Count("hazard_"+h, 1)
	}
	if st.perLine >= 3 {
		c.Count("three_or_more_statements_on_one_line", 1)
	}
	if st.maxLines >= 4 {
		c.Count("statement_over_four_or_more_lines", 1)
	}
	c.Eval(st.Hex+st.mode, strings.Contains(st.hazard, "semicolon") || st.perLine > 1 || st.maxLines > 1)
	replay := map[string]interface{}{"typed": st.typed, "chunks": st.Chunks, "mode": st.mode, "expected_statements": st.Expected, "submitted": o.Lines}
	if o.Panic != "" {
		c.Violation("C20:panic", o.Panic, replay)
		return
	}
	if o.Err != "" {
		c.Violation("C20:readline-error:"+errClass(o.Err), o.Err, replay)
		return
	}
	semi := strings.Contains(st.hazard, "semicolon")
	class := ""
	if semi {
		class = ":semicolon-inside-quotes"
	}
	if strings.HasSuffix(st.mode, "_long") {
		class = ":long-statement"
	}
	if strings.Contains(st.hazard, "empty_statement") {
		// a submitted statement that is nothing but a semicolon is what became
		// of a typed empty statement: not counted
		var got [][]c20Tok
		for _, g := range o.Got {
			if len(g) == 0 || (len(g) == 1 && g[0].X == ";") {
				continue
			}
			got = append(got, g)
		}
		o.Got = got
	}
	if len(o.Got) != len(o.Want) {
		c.Violation("C20:statement-count-differs"+class, fmt.Sprintf("%d statements typed, %d submitted", len(o.Want), len(o.Got)), replay)
		return
	}
	for i := range o.Want {
		a, b := o.Want[i], o.Got[i]
		same := len(a) == len(b)
		for k := 0; same && k < len(a); k++ {
			if st.brokenLit {
				// what Enter inside the quotes becomes (a blank, a line
				// break, nothing) is not stated: white space inside the
				// tokens of such a stream is not compared
				strip := func(x string) string { return strings.NewReplacer(" ", "", "\r", "", "\n", "").Replace(x) }
				if a[k].T != b[k].T || strip(a[k].X) != strip(b[k].X) {
					same = false
				}
				continue
			}
			if a[k] != b[k] {
				same = false
			}
		}
		if !same {
			c.Violation("C20:statement-differs"+class, fmt.Sprintf("statement %d: typed %q, submitted %q", i, st.Expected[i], flat(o.Lines, i)), replay)
			return
		}
	}
	c.Count("streams_equal", 1)
	c.Sample(3, map[string]interface{}{"typed": st.typed, "mode": st.mode})
}

func flat(lines [][]string, i int) string {
	k := 0
	for _, l := range lines {
		for _, s := range l {
			if k == i {
				return s
			}
			k++
		}
	}
	return ""
}

// ---------------------------------------------------------------------------
// end to end: runTerminal on a pseudo-terminal, effects read back from the
// database

type c20E2E struct {
	Hex    string `json:"hex"`
	Chunks []int  `json:"chunks"`
	// not sent
	typed     string
	want      [][2]string
	stmts     []string
	rejBefore bool
	repeats   bool
}

type c20E2EOut struct {
	Rows  [][2]string `json:"rows"`
	Err   string      `json:"err"`
	Panic string      `json:"panic"`
}

func genC20E2E(r *core.Rand) c20E2E {
	var st c20E2E
	var typed strings.Builder
	lits := []string{"a;b", ";", "x ; y", `say "hi"`, "it; is", "SELECT;", "two  spaces", ";;", "end;", "plain", "", "é;ü", "می\u200cخواهم;", "👨\u200d👩\u200d👧", "co\u00adoperate", "zero\u200bwidth"}
	ns := r.Range(3, 14)
	rejectedOnLine := false
	var lastInsert []string // tokens of the valid INSERT typed last, while nothing else was typed since
	sp := func() string { return "   "[:r.Range(1, 3)] }
	for i := 0; i < ns; i++ {
		var toks []string
		valid := true
		switch x := r.Intn(11); {
		case x == 10 && lastInsert != nil:
			// the INSERT typed just before, typed once more: a second, equal row
			toks = lastInsert
			st.want = append(st.want, st.want[len(st.want)-1])
			st.repeats = true
		case x < 6:
			lit := lits[r.Intn(len(lits))]
			toks = []string{"INSERT", "INTO", "log", "VALUES", "(", fmt.Sprint(i), ",", "'" + lit + "'", ")", ";"}
			st.want = append(st.want, [2]string{fmt.Sprintf("i%d", i), "s" + hex.EncodeToString([]byte(lit))})
			lastInsert = toks
		case x == 6:
			toks, valid = []string{"INSERT", "INTO", "nosuch", "VALUES", "(", fmt.Sprint(i), ",", "'gone; really'", ")", ";"}, false
		case x == 7:
			toks, valid = []string{"SELEC", "*", "FROM", "log", ";"}, false
		case x == 8:
			toks, valid = []string{"INSERT", "INTO", "log", "VALUES", "(", "'wrong; type'", ",", fmt.Sprint(i), ")", ";"}, false
		default:
			toks = []string{"SELECT", "*", "FROM", "log", "WHERE", "s", "=", "'a;b'", ";"}
		}
		if !valid || toks[2] != "log" || toks[0] != "INSERT" {
			lastInsert = nil
		}
		if !valid {
			rejectedOnLine = true
		} else if rejectedOnLine && toks[0] == "INSERT" {
			st.rejBefore = true
		}
		st.stmts = append(st.stmts, strings.Join(toks, " "))
		for ti, t := range toks {
			typed.WriteString(t)
			switch last := ti == len(toks)-1; {
			case last && i == ns-1:
				typed.WriteString("\r")
			case last:
				if r.Chance(3, 5) {
					typed.WriteString(sp()) // next statement on the same line
				} else {
					typed.WriteString("\r")
					rejectedOnLine = false
				}
			default:
				if r.Chance(1, 8) {
					typed.WriteString("\r") // statement goes on on the next line
				} else {
					typed.WriteString(sp())
				}
			}
		}
	}
	st.typed = typed.String()
	st.Hex = hex.EncodeToString([]byte(st.typed))
	switch r.Intn(3) {
	case 0:
		st.Chunks = []int{1}
	case 1:
		for k := 0; k < 5; k++ {
			st.Chunks = append(st.Chunks, r.Range(1, 40))
		}
	}
	return st
}

func checkC20EndToEnd(c *core.Ctx, bin string) {
	nb := 4
	if !core.Quick(c) {
		nb = 100
	}
	core.ParallelFor(nb, c.Workers, func(bi int) {
		r := core.NewRand(core.SubSeed(c.Seed, "C20E2E", bi))
		var streams []c20E2E
		for i := 0; i < 16; i++ {
			streams = append(streams, genC20E2E(r))
		}
		// one console process per call; a session that never ends makes the
		// rest of its batch 'not-run': those go into a further process, the
		// one that did not end is repeated on its own before it is reported
		runBatch := func(ss []c20E2E) ([]c20E2EOut, bool) {
			dir := c.CaseDir("c20e")
			defer removeAll(dir)
			in, outp := filepath.Join(dir, "in.json"), filepath.Join(dir, "out.json")
			b, _ := json.Marshal(ss)
			os.WriteFile(in, b, 0644)
			msg, err := runOverlayTestNamed(bin, dir, in, outp, "TestVerifE2E")
			ob, rerr := os.ReadFile(outp)
			if err != nil || rerr != nil {
				if strings.Contains(msg, "pty: ") {
					c.Inconclusive("no-pty", "no pseudo-terminal available: "+clip(msg, 300))
					return nil, false
				}
				c.Violation("C20:e2e:console-process-died", "the console process died during an end-to-end session: "+clip(msg, 800), map[string]interface{}{"batch": bi})
				return nil, false
			}
			var outs []c20E2EOut
			if err := json.Unmarshal(ob, &outs); err != nil || len(outs) != len(ss) {
				c.Inconclusive("harness", "bad e2e driver output")
				return nil, false
			}
			return outs, true
		}
		outs := make([]c20E2EOut, len(streams))
		todo := make([]int, len(streams))
		for i := range todo {
			todo[i] = i
		}
		neverEnds := 0
		for len(todo) > 0 && neverEnds < 2 {
			var ss []c20E2E
			for _, i := range todo {
				ss = append(ss, streams[i])
			}
			got, ok := runBatch(ss)
			if !ok {
				return
			}
			var next []int
			for k, i := range todo {
				switch {
				case got[k].Err == "not-run":
					next = append(next, i)
				case strings.HasPrefix(got[k].Err, "no-return"):
					again, ok := runBatch([]c20E2E{streams[i]})
					if !ok {
						return
					}
					outs[i] = again[0]
					if strings.HasPrefix(again[0].Err, "no-return") {
						neverEnds++
					} else {
						outs[i].Err = "harness: session did not end once, did when repeated"
					}
				default:
					outs[i] = got[k]
				}
			}
			todo = next
		}
		for _, i := range todo {
			outs[i].Err = "skipped"
		}
		for i, st := range streams {
			o := outs[i]
			if o.Err == "skipped" {
				continue
			}
			c.Count("e2e_sessions", 1)
			if st.rejBefore {
				c.Count("e2e_sessions_with_a_rejected_statement_before_a_valid_one_on_the_same_line", 1)
			}
			if st.repeats {
				c.Count("e2e_sessions_with_a_statement_typed_twice_in_a_row", 1)
			}
			c.Eval("e2e/"+st.Hex+fmt.Sprint(st.Chunks), st.rejBefore)
			replay := map[string]interface{}{"typed": st.typed, "statements": st.stmts, "chunks": st.Chunks, "table_log_expected": st.want, "table_log_found": o.Rows}
			switch {
			case o.Panic != "":
				c.Violation("C20:e2e:panic", "console session panicked: "+o.Panic, replay)
				continue
			case strings.HasPrefix(o.Err, "no-return"):
				c.Violation("C20:e2e:session-never-ends", "every keystroke of the session including the closing Ctrl-D on an empty line was delivered, and the console was still waiting 30 s later (twice: in its batch and alone): some line was never submitted", replay)
				continue
			case strings.HasPrefix(o.Err, "setup:") || strings.HasPrefix(o.Err, "typing:") || strings.HasPrefix(o.Err, "harness:"):
				c.Inconclusive("harness", "e2e session could not be set up: "+o.Err)
				continue
			case o.Err != "":
				c.Violation("C20:e2e:session-failed", "console session failed: "+o.Err, replay)
				continue
			}
			c.Count("e2e_rows_compared", int64(len(st.want)))
			same := len(o.Rows) == len(st.want)
			for k := 0; same && k < len(st.want); k++ {
				same = o.Rows[k] == st.want[k]
			}
			if same {
				c.Count("e2e_sessions_equal", 1)
				continue
			}
			sig := "C20:e2e:statements-reaching-the-engine-differ"
			if len(o.Rows) < len(st.want) {
				sig += ":missing"
			} else if len(o.Rows) > len(st.want) {
				sig += ":extra"
			}
			c.Violation(sig, fmt.Sprintf("after typing %d statements into the console the table holds %d rows, the valid INSERTs typed are %d: found %v, expected %v", len(st.stmts), len(o.Rows), len(st.want), o.Rows, st.want), replay)
		}
	})
}
