package main

import (
	"encoding/json"
	"fmt"
	"os"
	"os/exec"
	"path/filepath"

	"verif/harness/internal/core"
)

// buildOverlayTest compiles the test binary of a /repo command package with
// an in-package driver file injected through `go test -overlay` (the driver is
// a file of /verif, not of the repository).
func buildOverlayTest(c *core.Ctx, pkg, driverFile, injectedName string) (string, error) {
	repo := os.Getenv("VERIF_REPO")
	if repo == "" {
		repo = "/repo"
	}
	ov := map[string]map[string]string{"Replace": {filepath.Join(repo, pkg, injectedName): filepath.Join(c.Root, "overlay", driverFile)}}
	b, _ := json.Marshal(ov)
	ovPath := filepath.Join(c.Scratch, "overlay-"+injectedName+".json")
	if err := os.WriteFile(ovPath, b, 0644); err != nil {
		return "", err
	}
	bin := filepath.Join(c.Scratch, filepath.Base(pkg)+".test")
	cmd := exec.Command("go", "test", "-c", "-vet=off", "-tags", "verif", "-overlay", ovPath, "-o", bin, "./"+pkg)
	cmd.Dir = repo
	cmd.Env = core.GoEnv()
	out, err := cmd.CombinedOutput()
	if err != nil {
		return "", fmt.Errorf("go test -c failed: %v\n%s", err, out)
	}
	return bin, nil
}

// runOverlayTest runs the injected driver test with an input and output file.
func runOverlayTest(bin, cwd, in, outp string) (string, error) {
	return runOverlayTestNamed(bin, cwd, in, outp, "TestVerifDriver")
}

func runOverlayTestNamed(bin, cwd, in, outp, name string) (string, error) {
	cmd := exec.Command(bin, "-test.run", "^"+name+"$", "-test.count=1", "-test.timeout=600s")
	cmd.Dir = cwd
	cmd.Env = append(os.Environ(), "VERIF_IN="+in, "VERIF_OUT="+outp)
	b, err := cmd.CombinedOutput()
	return string(b), err
}
