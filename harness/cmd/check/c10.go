package main

import (
	"encoding/json"
	"fmt"
	"strings"
	"time"

	"verif/harness/internal/core"
	"verif/harness/internal/gen"
	"verif/harness/internal/model"
	"verif/harness/proto"
)

func init() {
	checks["C10"] = checkC10
}

type c10Item struct {
	n    *proto.NStmt
	text string
	tag  string
}

func checkC10(c *core.Ctx) []core.Floor {
	c.Rule = "statement trees over the whole supported grammar (SELECT with select list / aliases with and without AS / COUNT / AVG / qualified names / 0-2 joins of each type with and without INNER / WHERE / GROUP BY 1-n comma separated / ORDER BY 1-3 keys with and without ASC|DESC / LIMIT and OFFSET in either order; INSERT with and without column list, 1-5 rows; UPDATE with 1-4 SET items; DELETE; CREATE TABLE with all four types; CREATE DATABASE; USE; SHOW DATABASE(S)); every AND/OR expression shape with <= 5 predicates is enumerated; each tree is rendered 4 ways (keyword case, whitespace incl. tabs/newlines/minimal, optional keywords, bare/quoted identifiers, integer literals with leading zeros); groups of statements that differ only in the blanks inside one quoted literal or identifier are parsed back to back in one process; 1 in 80 carries a single literal or quoted identifier of 1.2-6 KB of mixed-width characters; 1 in 40 is an INSERT of 20-60 rows of multi-byte string literals (text of several kilobytes) and parsed through the real tokenizer+parser; the parsed statement, converted to a neutral form with AND/OR chains flattened, must equal the generated tree. Distinct = rendered text; non-trivial = the statement has at least one comma separated list with >= 2 elements or a boolean expression with >= 2 predicates."
	c.Assume = []string{"positions (line/column) and keyword spelling are not compared", "string literals contain no quote, backslash or newline"}
	drv := mustDriver(c, false)
	n := 8000
	if !core.Quick(c) {
		n = 100000
	}
	r := core.NewRand(core.SubSeed(c.Seed, "C10", 0))
	g := &gen.StmtGen{R: r}
	var trees []*proto.NStmt
	var tags []string
	// exhaustive boolean shapes
	for np := 1; np <= 5; np++ {
		for si, sh := range gen.Shapes(np) {
			for v := 0; v < 3; v++ {
				var t *proto.NStmt
				switch v {
				case 0:
					t = &proto.NStmt{Kind: "select", Star: true, From: []proto.NTable{{Name: "t"}}, Where: g.CondShape(sh, []string{"t"})}
				case 1:
					t = &proto.NStmt{Kind: "delete", Name: "t", Where: g.CondShape(sh, nil)}
				default:
					t = &proto.NStmt{Kind: "select", Star: true, From: []proto.NTable{{Name: "t"}, {Name: "u", Join: "left", On: g.CondShape(sh, []string{"t", "u"})}}}
				}
				trees = append(trees, t)
				tags = append(tags, fmt.Sprintf("shape_%d_%d", np, si))
				c.Count("boolean_shapes_enumerated", 1)
			}
		}
	}
	for i := 0; i < n; i++ {
		t := g.Any()
		trees = append(trees, t)
		tags = append(tags, t.Kind)
	}
	for i := 0; i < n/80; i++ {
		trees = append(trees, g.HugeToken())
		tags = append(tags, "huge_token")
		c.Count("statements_with_a_token_longer_than_a_read_buffer", 1)
	}
	for i := 0; i < n/40; i++ {
		trees = append(trees, g.LongInsert())
		tags = append(tags, "long_statement")
		c.Count("statements_longer_than_1024_bytes", 1)
	}
	var items []c10Item
	// statements that differ from one another only in the blanks inside one
	// quoted literal or quoted identifier, written identically otherwise and
	// parsed one after the other in the same process
	for i := 0; i < n/40; i++ {
		ws := []string{"a b", "a  b", "a\tb", " a b", "a b ", "a   b", "ab"}
		k := i % 4
		for _, w := range ws {
			var t *proto.NStmt
			switch k {
			case 0:
				t = &proto.NStmt{Kind: "insert", Name: "t", Rows: [][]proto.Val{{proto.Int(int64(i)), proto.Str(w)}}}
			case 1:
				t = &proto.NStmt{Kind: "delete", Name: "t", Where: &proto.Cond{Op: "=", LHS: model.ColOp("s"), RHS: model.LitOp(proto.Str(w))}}
			case 2:
				t = &proto.NStmt{Kind: "select", Star: true, From: []proto.NTable{{Name: w}}, Where: &proto.Cond{Op: "=", LHS: model.ColOp("k"), RHS: model.LitOp(proto.Int(int64(i)))}}
			default:
				t = &proto.NStmt{Kind: "update", Name: "t", Sets: []proto.NSet{{Col: "s", Src: *model.LitOp(proto.Str(w))}}, Where: &proto.Cond{Op: "=", LHS: model.ColOp("k"), RHS: model.LitOp(proto.Int(int64(i)))}}
			}
			items = append(items, c10Item{n: t, text: model.RenderN(t, model.Plain), tag: "whitespace_twins"})
			c.Count("whitespace_twin_statements", 1)
		}
	}
	for i, t := range trees {
		for v := 0; v < 4; v++ {
			st := model.Style{KwCase: (v + i) % 3, WS: v % 3, OptKw: v%2 == 0, QuoteIDs: v == 3, LimitOffsetSwap: (i+v)%2 == 0, ZeroPad: v == 1, R: r}
			items = append(items, c10Item{n: t, text: model.RenderN(t, st), tag: tags[i]})
		}
	}
	// what a text parses to must not depend on what was parsed before it: a
	// statement S, then S with one of its tokens continued by a character
	// (1 -> 12, t -> t2, name -> namex: the two texts agree up to the END of a
	// token), then an unrelated statement, then the second text again - the
	// two parses of the second text must be the same
	{
		npairs := n / 8
		var seqs [][]string
		for i := 0; i < npairs && i < len(trees); i++ {
			base := model.RenderN(trees[(i*7)%len(trees)], model.Plain)
			toks := strings.Fields(base)
			if len(toks) < 2 || len(base) > 600 {
				continue
			}
			k := r.Intn(len(toks))
			if r.Bool() {
				k = len(toks) - 1
			}
			t2 := append([]string(nil), toks...)
			t2[k] += []string{"2", "x", "0", "_", "="}[r.Intn(5)]
			seqs = append(seqs, []string{strings.Join(toks, " "), strings.Join(t2, " "), "select 1", strings.Join(t2, " ")})
		}
		core.ParallelFor((len(seqs)+199)/200, c.Workers, func(ci int) {
			lo, hi := ci*200, (ci+1)*200
			if hi > len(seqs) {
				hi = len(seqs)
			}
			dir := c.CaseDir("c10p")
			defer removeAll(dir)
			var s script
			for _, q := range seqs[lo:hi] {
				for _, t := range q {
					s.add(proto.Op{K: "parse", SQL: proto.Text(t)})
				}
			}
			out := core.RunScript(drv, dir, s.ops, 120*time.Second)
			for k := 0; k+3 < len(out.Res); k += 4 {
				a, b := &out.Res[k+1], &out.Res[k+3]
				q := seqs[lo+k/4]
				if a.Panic != "" || b.Panic != "" {
					c.Violation("C10:panic:"+a.Frame+b.Frame, "parser panicked: "+a.Panic+b.Panic+"\n"+q[1], map[string]interface{}{"texts_in_order": q})
					continue
				}
				if a.Err != b.Err || string(a.Raw) != string(b.Raw) {
					c.Violation("C10:parse-depends-on-the-statement-parsed-before", fmt.Sprintf("the same text parsed differently after %q than after %q:\n%s\nfirst:  %s %s\nsecond: %s %s", q[0], q[2], q[1], a.Err, clip(string(a.Raw), 400), b.Err, clip(string(b.Raw), 400)),
						map[string]interface{}{"texts_in_order": q})
					continue
				}
				c.Count("texts_parsed_twice_after_different_predecessors", 1)
			}
		})
	}
	chunk := 2000
	nChunks := (len(items) + chunk - 1) / chunk
	core.ParallelFor(nChunks, c.Workers, func(ci int) {
		lo, hi := ci*chunk, (ci+1)*chunk
		if hi > len(items) {
			hi = len(items)
		}
		dir := c.CaseDir("c10")
		defer removeAll(dir)
		var s script
		for _, it := range items[lo:hi] {
			s.add(proto.Op{K: "parse", SQL: proto.Text(it.text)})
		}
		out := core.RunScript(drv, dir, s.ops, 300*time.Second)
		for k, res := range out.Res {
			it := items[lo+k]
			judgeC10(c, it, &res)
		}
		if out.Died && !out.TimedOut {
			q := ""
			if out.LastBeg >= 0 && lo+out.LastBeg < hi {
				q = items[lo+out.LastBeg].text
			}
			c.Violation("C10:process-died", core.FatalTail(out.Stderr)+"\n"+q, map[string]interface{}{"text": q})
		}
	})
	c.Sample(4, map[string]interface{}{"tree": trees[len(trees)-1], "renderings": []string{items[len(items)-4].text, items[len(items)-3].text, items[len(items)-2].text, items[len(items)-1].text}})
	return []core.Floor{{Key: "parsed_equal", Min: 5000}, {Key: "boolean_shapes_enumerated", Min: 93}, {Key: "list_select_ge3", Min: 20}, {Key: "list_values_rows_ge3", Min: 20}, {Key: "list_set_ge3", Min: 20}, {Key: "list_group_ge2", Min: 20}, {Key: "list_order_ge3", Min: 20}, {Key: "list_defs_ge3", Min: 20}, {Key: "statements_longer_than_1024_bytes", Min: 100}, {Key: "whitespace_twin_statements", Min: 100}, {Key: "texts_parsed_twice_after_different_predecessors", Min: 200}, {Key: "statements_with_a_token_longer_than_a_read_buffer", Min: 50}}
}

func condPreds(cn *proto.Cond) int {
	if cn == nil {
		return 0
	}
	if cn.Op == "and" || cn.Op == "or" {
		return condPreds(cn.L) + condPreds(cn.R)
	}
	return 1
}

func judgeC10(c *core.Ctx, it c10Item, res *proto.Res) {
	n := it.n
	nontrivial := len(n.Items) >= 2 || len(n.Rows) >= 2 || len(n.Sets) >= 2 || len(n.GroupBy) >= 2 || len(n.OrderBy) >= 2 || len(n.Defs) >= 2 || condPreds(n.Where) >= 2
	c.Eval(it.text, nontrivial)
	c.Count("kind_"+n.Kind, 1)
	replay := map[string]interface{}{"text": it.text, "tree": n}
	if res.Panic != "" {
		c.Violation("C10:panic:"+res.Frame, fmt.Sprintf("parser panicked: %s\n%s", res.Panic, it.text), replay)
		return
	}
	if res.Err != "" {
		c.Violation("C10:"+n.Kind+":valid-statement-rejected:"+errKind(res.Err), fmt.Sprintf("%s\n%s", res.Err, it.text), replay)
		return
	}
	var got proto.NStmt
	if err := json.Unmarshal(res.Raw, &got); err != nil {
		c.Inconclusive("harness", "cannot decode neutral form: "+err.Error())
		return
	}
	want := *n
	if want.Kind == "show" {
		want.Name = ""
	}
	a, b := model.Canon(&want), model.Canon(&got)
	if a != b {
		// name the first clause that differs
		clause := "other"
		switch {
		case want.Kind != got.Kind:
			clause = "kind"
		case len(want.GroupBy) != len(got.GroupBy):
			clause = "group-by-list-length"
		case len(want.Items) != len(got.Items):
			clause = "select-list-length"
		case len(want.Rows) != len(got.Rows):
			clause = "values-rows"
		case len(want.Sets) != len(got.Sets):
			clause = "set-list-length"
		case len(want.OrderBy) != len(got.OrderBy):
			clause = "order-by-list-length"
		case len(want.From) != len(got.From):
			clause = "from"
		case model.CanonCond(want.Where) != model.CanonCond(got.Where):
			clause = "where"
		case want.HasLimit != got.HasLimit || want.Limit != got.Limit || want.HasOffset != got.HasOffset || want.Offset != got.Offset:
			clause = "limit-offset"
		}
		c.Violation("C10:"+n.Kind+":parsed-statement-differs:"+clause, fmt.Sprintf("text:   %s\nwanted: %s\nparsed: %s", it.text, clip(a, 700), clip(b, 700)), replay)
		return
	}
	c.Count("parsed_equal", 1)
	if len(n.Items) >= 3 {
		c.Count("list_select_ge3", 1)
	}
	if len(n.Rows) >= 3 {
		c.Count("list_values_rows_ge3", 1)
	}
	if len(n.Sets) >= 3 {
		c.Count("list_set_ge3", 1)
	}
	if len(n.GroupBy) >= 2 {
		c.Count("list_group_ge2", 1)
	}
	if len(n.OrderBy) >= 3 {
		c.Count("list_order_ge3", 1)
	}
	if len(n.Defs) >= 3 {
		c.Count("list_defs_ge3", 1)
	}
}
