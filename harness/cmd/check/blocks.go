package main

import (
	"time"

	"verif/harness/internal/core"
	"verif/harness/proto"
)

// block is an independent group of operations (it starts by chdir'ing to its
// own directory), so that many blocks can share one driver process and a
// process death only costs the block that caused it.
type block struct {
	ops []proto.Op
}

type blockOut struct {
	res      []proto.Res // results of the block's ops that completed
	died     bool        // the driver died inside this block
	diedAt   int         // index (within the block) of the op that was running
	timedOut bool
	stderr   string
}

// runBlocks executes the blocks in as few driver processes as possible.
func runBlocks(drv, cwd string, blocks []block, perBlock time.Duration, env ...string) []blockOut {
	outs := make([]blockOut, len(blocks))
	start := 0
	for start < len(blocks) {
		if core.Aborted() {
			// the run is already decided (violations reported a while ago):
			// what is left is not executed
			for b := start; b < len(blocks); b++ {
				outs[b].died, outs[b].timedOut, outs[b].stderr = true, true, "skipped: run stopped early after violations"
			}
			break
		}
		var ops []proto.Op
		type span struct{ b, lo, hi int }
		var spans []span
		for b := start; b < len(blocks); b++ {
			lo := len(ops)
			for _, op := range blocks[b].ops {
				op.ID = len(ops)
				ops = append(ops, op)
			}
			spans = append(spans, span{b, lo, len(ops)})
		}
		to := perBlock * time.Duration(len(blocks)-start)
		if to < 60*time.Second {
			to = 60 * time.Second
		}
		if to > 180*time.Second {
			to = 180 * time.Second // blocks take milliseconds; one that hangs must not cost the sum of all allowances
		}
		ro := core.RunScript(drv, cwd, ops, to, env...)
		guilty := -1
		if ro.Died {
			guilty = start
			for _, sp := range spans {
				if ro.LastBeg >= sp.lo && ro.LastBeg < sp.hi {
					guilty = sp.b
				}
			}
		}
		for _, sp := range spans {
			if guilty >= 0 && sp.b > guilty {
				break
			}
			o := &outs[sp.b]
			for i := range ro.Res {
				id := ro.Res[i].ID
				if id >= sp.lo && id < sp.hi {
					r := ro.Res[i]
					r.ID = id - sp.lo
					o.res = append(o.res, r)
				}
			}
			if sp.b == guilty {
				o.died = true
				o.diedAt = ro.LastBeg - sp.lo
				if o.diedAt < 0 {
					o.diedAt = 0
				}
				o.timedOut = ro.TimedOut
				o.stderr = ro.Stderr + " " + ro.ExitErr
			}
		}
		if guilty < 0 {
			break
		}
		start = guilty + 1
	}
	return outs
}
