package main

import (
	"fmt"
	"os"
	"strings"
	"time"

	"verif/harness/internal/core"
	"verif/harness/internal/gen"
	"verif/harness/internal/model"
	"verif/harness/proto"
)

func init() {
	checks["C02"] = checkC02
}

// crashHist is a history whose every statement boundary is a crash point.
type crashHist struct {
	idx       int
	name      string // random / template name
	stmts     []*proto.Stmt
	flush     []bool              // flush after statement i
	noise     map[int]*proto.Stmt // a statement that has to FAIL, issued right after statement i
	noiseQ    map[int]string      // the same, given as SQL text (database statements)
	reopen    []bool              // clean close + reopen after statement i
	class     string              // never always mixed timer
	timer     bool                // the real 100 ms flush timer runs (no explicit flushes needed)
	db        string              // the database's name as written in SQL ("" = d1)
	timerOnly bool                // template that only makes sense with the real timer
	// prepare completes a template that depends on something measured on the
	// real system (a file size); false: leave the template out
	prepare func(c *core.Ctx, drv string, ch *crashHist) bool
	noFlush bool // only the schedules that leave work in the log make sense
	// nextFree > 0: the history runs in a data file whose allocation frontier
	// has been moved there (just below or beyond 4 GiB; the file is sparse)
	nextFree int64
}

func intv(i int64) proto.Val { return proto.Int(i) }

func simpleTable(name string, defs ...proto.ColDef) *proto.Stmt {
	return &proto.Stmt{Kind: "create", Table: name, Defs: defs}
}

func kgTable(name string) *proto.Stmt {
	return simpleTable(name, proto.ColDef{Name: "k", Type: "int"}, proto.ColDef{Name: "g", Type: "int"}, proto.ColDef{Name: "s", Type: "varchar", Len: 40})
}

func kgRow(k int64) []proto.Val {
	return []proto.Val{intv(k), intv(k % 5), proto.Str(fmt.Sprintf("row-%d", k))}
}

func kgInsert(name string, from, n int64) *proto.Stmt {
	s := &proto.Stmt{Kind: "insert", Table: name}
	for i := int64(0); i < n; i++ {
		s.Rows = append(s.Rows, kgRow(from+i))
	}
	return s
}

// templates reach the places random histories reach rarely.
func crashTemplates(r *core.Rand) []*crashHist {
	var out []*crashHist
	mk := func(name string, stmts ...*proto.Stmt) *crashHist {
		h := &crashHist{name: name, stmts: stmts}
		out = append(out, h)
		return h
	}
	kEq := func(k int64) *proto.Cond { return model.Cmp("=", model.ColOp("k"), model.LitOp(intv(k))) }
	// T1: CREATE TABLEs as the last thing before a crash, then (in the
	// continuation and here) inserts that move a root
	mk("creates-then-root-move", kgTable("a"), kgInsert("a", 0, 8), kgTable("b"), kgTable("c"), kgInsert("a", 8, 1), kgInsert("a", 9, 1), kgInsert("b", 0, 9), kgTable("d"), kgInsert("a", 10, 12))
	// T2: DELETE immediately followed by INSERT into the same single-page table
	mk("delete-then-insert", kgTable("a"), kgInsert("a", 0, 4), &proto.Stmt{Kind: "delete", Table: "a", Where: kEq(2)}, kgInsert("a", 4, 1), &proto.Stmt{Kind: "delete", Table: "a", Where: kEq(0)}, kgInsert("a", 5, 2))
	// T3: UPDATE of a one-column BOOLEAN table (short row images)
	mk("update-short-rows", simpleTable("b1", proto.ColDef{Name: "f", Type: "boolean"}),
		&proto.Stmt{Kind: "insert", Table: "b1", Rows: [][]proto.Val{{proto.Bool(true)}, {proto.Bool(false)}}},
		&proto.Stmt{Kind: "update", Table: "b1", Sets: []proto.SetItem{{Col: "f", Val: proto.Bool(false)}}},
		&proto.Stmt{Kind: "insert", Table: "b1", Rows: [][]proto.Val{{proto.Bool(true)}}},
		&proto.Stmt{Kind: "update", Table: "b1", Sets: []proto.SetItem{{Col: "f", Val: proto.Null()}}, Where: model.Cmp("=", model.ColOp("f"), model.LitOp(proto.Bool(true)))})
	// T4: multi-row DELETE on one page, then more work on the page
	mk("multi-row-delete", kgTable("a"), kgInsert("a", 0, 7), &proto.Stmt{Kind: "delete", Table: "a", Where: model.Cmp("<", model.ColOp("k"), model.LitOp(intv(4)))}, kgInsert("a", 7, 1),
		&proto.Stmt{Kind: "update", Table: "a", Sets: []proto.SetItem{{Col: "s", Val: proto.Str("changed")}}, Where: model.Cmp(">=", model.ColOp("k"), model.LitOp(intv(5)))},
		&proto.Stmt{Kind: "delete", Table: "a"}, kgInsert("a", 8, 3))
	// T5: exactly 8 rows at the crash, the 9th arrives after recovery
	mk("eight-rows", kgTable("a"), kgInsert("a", 0, 8), kgInsert("a", 8, 1), kgInsert("a", 9, 1))
	// T6: updates and deletes spread over a two-level tree
	mk("two-level-dml", kgTable("a"), kgInsert("a", 0, 30),
		&proto.Stmt{Kind: "update", Table: "a", Sets: []proto.SetItem{{Col: "s", Val: proto.Str("u1")}}, Where: model.Cmp("=", model.ColOp("g"), model.LitOp(intv(1)))},
		&proto.Stmt{Kind: "delete", Table: "a", Where: model.Cmp("=", model.ColOp("g"), model.LitOp(intv(2)))},
		kgInsert("a", 30, 10),
		&proto.Stmt{Kind: "update", Table: "a", Sets: []proto.SetItem{{Col: "g", Val: intv(7)}}, Where: model.Cmp(">", model.ColOp("k"), model.LitOp(intv(25)))},
		kgTable("z"), kgInsert("z", 0, 3), kgInsert("a", 40, 5))
	// T7: a catalog that is itself a two-level tree (more than 7 tables), then
	// root moves of several tables: the catalog records of those moves point
	// into the catalog's leaves
	{
		var st []*proto.Stmt
		for i := 0; i < 9; i++ {
			st = append(st, kgTable(fmt.Sprintf("m%d", i)))
		}
		for i := 0; i < 9; i += 2 {
			st = append(st, kgInsert(fmt.Sprintf("m%d", i), 0, 8))
		}
		st = append(st, kgInsert("m8", 8, 2), kgInsert("m0", 8, 1), kgInsert("m4", 8, 3), kgInsert("m1", 0, 11), kgInsert("m8", 10, 1), kgTable("m9"), kgInsert("m2", 8, 2), kgInsert("m9", 0, 10))
		mk("many-tables-root-moves", st...)
	}
	// T8: a table grown past the split of its internal root (290 leaves, the
	// 1165th row): with nothing flushed recovery rebuilds the whole three-level
	// tree from the log, with a flush in between it replays the internal split
	// and the catalog record of the root move
	mk("internal-root-split", kgTable("big"), kgInsert("big", 0, 500), kgInsert("big", 500, 500), kgInsert("big", 1000, 140),
		&proto.Stmt{Kind: "delete", Table: "big", Where: model.Cmp("=", model.ColOp("g"), model.LitOp(intv(3)))},
		kgInsert("big", 1140, 20), kgInsert("big", 1160, 10), kgInsert("big", 1170, 30),
		&proto.Stmt{Kind: "update", Table: "big", Sets: []proto.SetItem{{Col: "s", Val: proto.Str("after-split")}}, Where: model.Cmp(">=", model.ColOp("k"), model.LitOp(intv(1150)))},
		kgTable("side"), kgInsert("side", 0, 9), kgInsert("big", 1200, 100),
		// on the three-level tree: single rows among the newest are deleted
		// while they sit in the right-most leaf, later inserts fill and split
		// that leaf (the tombstone has to move with its cell: recovery walks
		// every insert since the last change of the top root down the tree
		// again and must find the key there, deleted or not)
		&proto.Stmt{Kind: "delete", Table: "big", Where: kEq(1298)}, kgInsert("big", 1300, 7),
		&proto.Stmt{Kind: "delete", Table: "big", Where: kEq(1304)}, kgInsert("big", 1307, 9),
		&proto.Stmt{Kind: "delete", Table: "big", Where: kEq(1313)}, kgInsert("big", 1316, 11))
	// T9: one statement that changes well over a thousand pages, with the real
	// timer: the tick that follows it has a lot to write, the crash comes
	// after that tick (and after one more small statement)
	mk("huge-insert-under-timer", kgTable("h"), kgInsert("h", 0, 6000), kgInsert("h", 6000, 1), kgInsert("h", 6001, 2),
		&proto.Stmt{Kind: "delete", Table: "h", Where: model.Cmp("<", model.ColOp("k"), model.LitOp(intv(5)))}).timerOnly = true
	// T10: the log is EXACTLY 2^16 / 2^20 bytes long at a statement boundary
	// (a reader or writer that works in blocks of such a size sees a block end
	// where a record ends), and acknowledged statements follow that live in
	// the log only
	for _, target := range []int64{1 << 16, 1 << 20} {
		target := target
		h := mk(fmt.Sprintf("log-size-2^%d", map[int64]int{1 << 16: 16, 1 << 20: 20}[target]))
		h.noFlush = true
		h.prepare = func(c *core.Ctx, drv string, ch *crashHist) bool { return prepareLogSize(c, drv, ch, target) }
	}
	return out
}

// prepareLogSize fills in the statements of the log-size template: a table is
// grown until the log is a little short of target bytes, the real log size is
// measured, and one more INSERT is sized so that the log ends exactly at
// target; further statements follow.
func prepareLogSize(c *core.Ctx, drv string, ch *crashHist, target int64) bool {
	const pad, rec = 200, 29 + 15 + 200 // bytes of one log record of a (k, g, pad) row with a 200-byte pad
	mkRows := func(from, n int, lastPad int) *proto.Stmt {
		st := &proto.Stmt{Kind: "insert", Table: "pw"}
		for i := 0; i < n; i++ {
			p := pad
			if i == n-1 && lastPad >= 0 {
				p = lastPad
			}
			st.Rows = append(st.Rows, []proto.Val{intv(int64(from + i)), intv(int64((from + i) % 5)), proto.Str(strings.Repeat("p", p))})
		}
		return st
	}
	stmts := []*proto.Stmt{simpleTable("pw", proto.ColDef{Name: "k", Type: "int"}, proto.ColDef{Name: "g", Type: "int"}, proto.ColDef{Name: "pad", Type: "varchar", Len: 255})}
	n0 := int((target - 2000) / rec)
	next := 0
	for left := n0; left > 0; {
		n := left
		if n > 400 {
			n = 400
		}
		stmts = append(stmts, mkRows(next, n, -1))
		next += n
		left -= n
	}
	measure := func(sts []*proto.Stmt) int64 {
		dir := c.CaseDir("c02m")
		defer removeAll(dir)
		var s script
		s.open(true, 0, "d1", true)
		for _, st := range sts {
			s.stmt(st)
		}
		id := s.add(proto.Op{K: "filesize", S: "data/d1/wal"})
		out := core.RunScript(drv, dir, s.ops, 120*time.Second)
		if out.Died || out.Res[id].Failed() {
			return -1
		}
		return out.Res[id].N
	}
	s0 := measure(stmts)
	if s0 < 0 || target-s0 < 44 {
		return false
	}
	remaining := target - s0
	nfull := 0
	for remaining-int64(rec) >= 44 {
		nfull++
		remaining -= rec
	}
	if remaining-44 > 255 || remaining < 44 {
		return false
	}
	stmts = append(stmts, mkRows(next, nfull+1, int(remaining-44)))
	next += nfull + 1
	if measure(stmts) != target {
		// the sizes assumed above are not those of this tree: no template
		return false
	}
	kEq := func(k int64) *proto.Cond { return model.Cmp("=", model.ColOp("k"), model.LitOp(intv(k))) }
	stmts = append(stmts, mkRows(next, 2, 10),
		&proto.Stmt{Kind: "update", Table: "pw", Sets: []proto.SetItem{{Col: "g", Val: intv(77)}}, Where: kEq(int64(next))},
		kgTable("other"), kgInsert("other", 0, 3),
		&proto.Stmt{Kind: "delete", Table: "pw", Where: kEq(3)}, mkRows(next+2, 1, 5))
	ch.stmts = stmts
	return true
}

func buildCrashHist(c *core.Ctx, idx int) *crashHist {
	r := core.NewRand(core.SubSeed(c.Seed, "CRASHHIST", idx))
	h := gen.NewHist(r, false)
	h.MaxTables = r.Range(1, 3)
	if idx%5 == 4 {
		h.MaxTables = r.Range(8, 12) // the catalog becomes a two-level tree
	}
	ch := &crashHist{idx: idx, name: "random"}
	if idx%9 == 4 {
		// a database whose name needs quotes: it begins with a dot, contains a
		// blank or ends in one, is a keyword, or is not ASCII
		ch.db = []string{`".d1"`, `"my db"`, `"d1 "`, `"select"`, `"дб"`, `".hidden.db"`}[(idx/9)%6]
	}
	if idx%10 == 6 {
		// page offsets that do not fit 32 bits: the frontier starts a few
		// pages below 4 GiB (the history crosses it) or beyond it
		ch.nextFree = []int64{1<<32 - 3*4096, 1<<32 - 4096, 1 << 32, 1<<32 + 7*4096, 1<<33 + 4096, 1<<32 - 12*4096}[(idx/10)%6]
	}
	n := r.Range(10, 60)
	ch.noise = map[int]*proto.Stmt{}
	ch.noiseQ = map[int]string{}
	for i := 0; i < n; i++ {
		ch.stmts = append(ch.stmts, h.Next())
		if r.Chance(1, 25) {
			// CREATE DATABASE for the database the history runs in, or USE of
			// one that does not exist: refused, and nothing may change
			ch.noiseQ[i] = []string{"CREATE DATABASE d1", "CREATE DATABASE D1", "create database d1", "USE nosuchdb", "CREATE DATABASE d1"}[r.Intn(5)]
			continue
		}
		if r.Chance(1, 8) {
			// a statement that is refused, between two that are not: it must
			// leave nothing behind - also nothing that only shows when a later
			// statement's effects are rebuilt from the log
			cause := c14Causes[r.Intn(len(c14Causes))]
			if r.Chance(1, 3) {
				cause = "create-name-too-long"
			}
			if fs := genFailing(r, h, cause); fs != nil && fs.st != nil && cause != "where-type" && !strings.HasPrefix(cause, "update-") {
				if fs.st.Kind == "insert" && fs.k >= 1 && fs.k <= len(fs.st.Rows) && r.Bool() {
					// the refused row on its own: single-row statements take
					// other paths than multi-row ones
					fs.st.Rows = [][]proto.Val{fs.st.Rows[fs.k-1]}
				}
				ch.noise[i] = fs.st
			}
		}
	}
	return ch
}

func (ch *crashHist) schedule(r *core.Rand, class int) {
	n := len(ch.stmts)
	ch.flush = make([]bool, n)
	ch.reopen = make([]bool, n)
	switch class {
	case 0:
		ch.class = "never"
	case 1:
		ch.class = "always"
		for i := range ch.flush {
			ch.flush[i] = true
		}
	case 3:
		// the real timer decides what is flushed when; the pauses let it tick
		// between some statements and not between others
		ch.class, ch.timer = "timer", true
		for i := range ch.flush {
			ch.reopen[i] = r.Chance(1, 25)
		}
	default:
		ch.class = "mixed"
		for i := range ch.flush {
			ch.flush[i] = r.Chance(1, 3)
			ch.reopen[i] = r.Chance(1, 20)
		}
	}
}

func checkC02(c *core.Ctx) []core.Floor {
	c.Level = "fault_enumeration"
	c.Rule = "seeded DDL/DML histories (10-60 statements, 1-3 tables; one statement in eight is followed by a statement that is refused - over-long names, duplicate table, type / range / size / column-count errors, repeated columns, CREATE DATABASE for the database in use, USE of a missing database - and must leave nothing behind, also nothing that only shows when later statements are rebuilt from the log) plus scenario templates; one history in nine runs in a database whose name needs quotes (leading dot, blanks, a keyword, non-ASCII); four histories in five have a second database next to theirs, created before or after it and sorting before or after it; EVERY statement boundary of every history is a crash point (image of the data directory with the timer off = state a kill -9 leaves); flush schedule per history: never / after every statement / random subset + clean reopen / the REAL 100 ms timer running (one history in eight: the image is taken right after the acknowledgement, never while a flush is writing, with pauses of more than a tick after some statements). Each image is recovered in a fresh process and SELECT * of every table + catalog is compared with the model after that statement; recovery is run a second time; then 3-8 further statements (with up to 2 more crash/recover cycles) are checked against the model incl. row-id rules. A sample is cross-validated with a real SIGKILL. Distinct = image (history, boundary, schedule); non-trivial = recovery actually replayed at least one log record."
	c.Assume = []string{"process-death crash model: completed write(2) calls survive, as the property states", "image = copy of data/ taken between statements with the flush timer off; cross-validated against real SIGKILL on a sample"}
	drv := mustDriver(c, false)
	nRandom, kill := 300, 20
	if !core.Quick(c) {
		nRandom, kill = 4000, 5
	}
	var hists []*crashHist
	tr := core.NewRand(core.SubSeed(c.Seed, "C02T", 0))
	for rep := 0; rep < 4; rep++ {
		for _, t := range crashTemplates(tr) {
			if t.timerOnly && rep != 3 {
				continue
			}
			if t.noFlush && rep != 0 && rep != 2 {
				continue
			}
			if t.prepare != nil {
				if (core.Quick(c) && t.name == "log-size-2^20" && rep != 0) || !t.prepare(c, drv, t) {
					continue
				}
				c.Count("templates_with_the_log_exactly_a_power_of_two_long_at_a_statement_boundary", 1)
			}
			t.idx = 9000000 + len(hists)
			t.schedule(tr, rep)
			hists = append(hists, t)
		}
	}
	for i := 0; i < nRandom; i++ {
		h := buildCrashHist(c, i)
		r := core.NewRand(core.SubSeed(c.Seed, "C02S", i))
		cls := i % 4
		if i%8 == 7 {
			cls = 3 // the real timer
		} else if cls == 3 {
			cls = 2
		}
		h.schedule(r, cls)
		hists = append(hists, h)
	}
	if only := os.Getenv("VERIF_C02_ONLY"); only != "" {
		// debugging aid: run the histories whose template name contains the word
		var sel []*crashHist
		for _, h := range hists {
			if strings.Contains(h.name, only) {
				sel = append(sel, h)
			}
		}
		hists = sel
	}
	core.ParallelFor(len(hists), c.Workers, func(i int) {
		runCrashHist(c, drv, hists[i], kill)
	})
	return []core.Floor{
		{Key: "images_verified", Min: 1000}, {Key: "templates_with_the_log_exactly_a_power_of_two_long_at_a_statement_boundary", Min: 2}, {Key: "recoveries_that_replayed", Min: 100}, {Key: "chains_of_3_cycles", Min: 1},
		{Key: "real_kill_agree", Min: 5}, {Key: "images_taken_with_the_real_timer_running", Min: 200}, {Key: "images_crash_after_create_timer", Min: 10},
		{Key: "images_crash_after_insert_never", Min: 1}, {Key: "images_crash_after_update_never", Min: 1}, {Key: "images_crash_after_delete_never", Min: 1}, {Key: "images_crash_after_create_never", Min: 1},
		{Key: "images_crash_after_insert_always", Min: 1}, {Key: "images_crash_after_update_mixed", Min: 1}, {Key: "images_crash_after_delete_mixed", Min: 1},
	}
}

// phase1 runs the history once, imaging the data directory at every boundary,
// and returns the model snapshots per boundary (nil when the uncrashed run
// itself misbehaved, which is C01's business).
func crashPhase1(c *core.Ctx, drv, dir string, ch *crashHist, withImages bool, killAfter int) (snaps []*model.DB, ok bool) {
	var s script
	type meta struct {
		kind string
		i    int
	}
	var mt []meta
	add := func(op proto.Op, m meta) { s.add(op); mt = append(mt, m) }
	if ch.timer {
		add(proto.Op{K: "cfg", N: 0, S: "timer-images"}, meta{kind: "other"})
	} else {
		add(proto.Op{K: "cfg", N: 1}, meta{kind: "other"})
	}
	add(proto.Op{K: "init"}, meta{kind: "other"})
	// a second database next to the one the history runs in, created before
	// or after it, named so that it sorts before or after it: start-up has to
	// recover every database from its own log, whatever the directory order
	other := []string{"", "a0", "zz", "a0", "zz"}[ch.idx%5]
	if other != "" && ch.idx%2 == 0 {
		add(proto.Op{K: "sql", SQL: proto.Text("CREATE DATABASE " + other)}, meta{kind: "other"})
	}
	db := "d1"
	if ch.db != "" {
		db = ch.db
	}
	add(proto.Op{K: "sql", SQL: proto.Text("CREATE DATABASE " + db)}, meta{kind: "other"})
	if other != "" && ch.idx%2 == 1 {
		add(proto.Op{K: "sql", SQL: proto.Text("CREATE DATABASE " + other)}, meta{kind: "other"})
	}
	add(proto.Op{K: "sql", SQL: proto.Text("USE " + db)}, meta{kind: "other"})
	if ch.nextFree > 0 {
		add(proto.Op{K: "setnextfree", N: int(ch.nextFree)}, meta{kind: "other"})
	}
	for i, st := range ch.stmts {
		if ch.timer && withImages && len(st.Rows) >= 1000 {
			// the image of this boundary is taken by the flusher itself, at
			// the end of the first flush after the statement has returned
			add(proto.Op{K: "stmt", Stmt: st, Dir: imgDir(dir, i, "") + "/data"}, meta{kind: "stmt", i: i})
		} else {
			add(proto.Op{K: "stmt", Stmt: st}, meta{kind: "stmt", i: i})
		}
		if ns := ch.noise[i]; ns != nil {
			add(proto.Op{K: "stmt", Stmt: ns}, meta{kind: "noise", i: i})
		}
		if q := ch.noiseQ[i]; q != "" {
			if ch.db != "" && strings.Contains(strings.ToLower(q), "database d1") {
				q = "CREATE DATABASE " + ch.db
			}
			add(proto.Op{K: "sql", SQL: proto.Text(q)}, meta{kind: "noise", i: i})
		}
		if ch.flush[i] {
			add(proto.Op{K: "flush"}, meta{kind: "other"})
		}
		if ch.reopen[i] {
			add(proto.Op{K: "close"}, meta{kind: "other"})
			add(proto.Op{K: "session"}, meta{kind: "other"})
			add(proto.Op{K: "sql", SQL: proto.Text("USE " + db)}, meta{kind: "other"})
		}
		if killAfter == i {
			add(proto.Op{K: "kill"}, meta{kind: "kill"})
			break
		}
		if withImages && ch.timer {
			// the image first: it is the state right after the acknowledgement
			// (after a statement of thousands of rows: when the first
			// flush since the statement began has completed)
			wait := 0
			if len(st.Rows) >= 1000 {
				wait = 1 // taken at the end of the first flush after the statement
			}
			add(proto.Op{K: "image", Dir: imgDir(dir, i, "") + "/data", M: wait}, meta{kind: "image", i: i})
			add(proto.Op{K: "dump"}, meta{kind: "dump", i: i})
			if (ch.idx+i)%6 == 0 || len(st.Rows) >= 1000 {
				add(proto.Op{K: "sleep", N: 110}, meta{kind: "other"})
			}
		} else if withImages {
			add(proto.Op{K: "dump"}, meta{kind: "dump", i: i})
			add(proto.Op{K: "image", Dir: imgDir(dir, i, "") + "/data"}, meta{kind: "other"})
		}
	}
	out := core.RunScript(drv, dir, s.ops, 120*time.Second)
	if killAfter >= 0 {
		return nil, out.LastBeg == len(s.ops)-1
	}
	if out.Died {
		c.Inconclusive("phase1", fmt.Sprintf("uncrashed run of history %d died at op %d: %s", ch.idx, out.LastBeg, core.FatalTail(out.Stderr)))
		return nil, false
	}
	m := model.NewDB()
	grave := model.Graveyard{}
	snaps = make([]*model.DB, len(ch.stmts))
	for k, r := range out.Res {
		if mt[k].kind == "noise" {
			if r.Panic != "" || r.Err == "" {
				c.Inconclusive("phase1", fmt.Sprintf("history %d: the statement meant to be refused was not (C14's / C18's business): %s%s", ch.idx, r.Err, r.Panic))
				return nil, false
			}
			c.Count("refused_statements_inside_histories", 1)
			continue
		}
		if r.Failed() {
			c.Inconclusive("phase1", fmt.Sprintf("uncrashed run of history %d (%s): op %s failed: %s%s", ch.idx, ch.name, s.ops[k].K, r.Err, r.Panic))
			return nil, false
		}
		switch mt[k].kind {
		case "stmt":
			if f, _, _, err := m.Apply(ch.stmts[mt[k].i]); f != "" || err != nil {
				c.Inconclusive("model", fmt.Sprintf("history %d statement %d rejected by the model: %s %v", ch.idx, mt[k].i, f, err))
				return nil, false
			}
		case "dump":
			if df := m.CheckDump("C02:phase1", r.Tables, grave, true); df != nil {
				c.Inconclusive("phase1", fmt.Sprintf("uncrashed run of history %d already differs from the model (C01's business): %s", ch.idx, df.What))
				return nil, false
			}
			snaps[mt[k].i] = m.Clone()
		}
	}
	return snaps, true
}

func runCrashHist(c *core.Ctx, drv string, ch *crashHist, killEvery int) {
	dir := c.CaseDir("c02")
	defer removeAll(dir)
	snaps, ok := crashPhase1(c, drv, dir, ch, true, -1)
	if !ok {
		return
	}
	if ch.nextFree > 0 {
		c.Count("histories_in_a_data_file_around_or_beyond_4GiB", 1)
	}
	r := core.NewRand(core.SubSeed(c.Seed, "C02J", ch.idx))
	var jobs []*crashJob
	var stmtTexts []string
	for _, st := range ch.stmts {
		stmtTexts = append(stmtTexts, clip(model.RenderStmt(st, model.Plain), 400))
	}
	for i := range ch.stmts {
		if snaps[i] == nil {
			continue
		}
		refused := map[string]string{}
		for k, ns := range ch.noise {
			if k <= i {
				refused[fmt.Sprint(k)] = clip(model.RenderStmt(ns, model.Plain), 600)
			}
		}
		for k, q := range ch.noiseQ {
			if k <= i {
				refused[fmt.Sprint(k)] = q
			}
		}
		j := &crashJob{
			dir:   imgDir(dir, i, ""),
			cands: []*model.DB{snaps[i]},
			label: fmt.Sprintf("crash_after_%s_%s", ch.stmts[i].Kind, ch.class),
			cont:  r.Range(3, 8),
			seed:  core.SubSeed(c.Seed, "C02C", ch.idx*1000+i),
			db:    ch.db,
			replay: map[string]interface{}{"history": ch.idx, "template": ch.name, "flush_class": ch.class, "database": ch.db, "crash_after_statement": i,
				"flush_after": ch.flush[:i+1], "reopen_after": ch.reopen[:i+1], "statements": stmtTexts[:i+1], "refused_statement_issued_after_statement": refused, "how": "run the statements (direct values) with the timer off, flushing where flagged, kill -9 after the last one, then InitStorage"},
		}
		if ch.timer {
			j.replay.(map[string]interface{})["how"] = "run the statements (direct values) with the real 100 ms flush timer on, kill -9 right after the last one has returned (not while a flush is writing), then InitStorage"
			c.Count("images_taken_with_the_real_timer_running", 1)
		}
		if r.Chance(1, 3) {
			j.chain = r.Range(1, 2)
		}
		jobs = append(jobs, j)
	}
	// real-kill cross-validation on a sample of boundaries
	var realJobs []*crashJob
	for i := range ch.stmts {
		if snaps[i] == nil || ch.timer || !r.Chance(1, killEvery) {
			continue
		}
		kd := c.CaseDir("c02k")
		defer removeAll(kd)
		if _, ok := crashPhase1(c, drv, kd, ch, false, i); !ok {
			c.Inconclusive("real-kill", "the driver did not reach its kill point")
			continue
		}
		rj := &crashJob{dir: kd, cands: []*model.DB{snaps[i]}, label: "real_kill", real: true, replay: jobs[0].replay, db: ch.db}
		for _, j := range jobs {
			if j.dir == imgDir(dir, i, "") {
				rj.replay = j.replay
			}
		}
		realJobs = append(realJobs, rj)
		jobs = append(jobs, rj)
	}
	verifyCrashJobs(c, "C02", drv, dir, jobs)
	for _, rj := range realJobs {
		// find the emulated twin
		for _, j := range jobs {
			if !j.real && fmt.Sprint(j.replay) == fmt.Sprint(rj.replay) {
				if j.failed != rj.failed || (!j.failed && !dumpsEqual(j.dump, rj.dump)) {
					c.Inconclusive("emulation-mismatch", fmt.Sprintf("history %d: emulated image and real SIGKILL disagree (emulated failed=%v real failed=%v)", ch.idx, j.failed, rj.failed))
				} else {
					c.Count("real_kill_agree", 1)
				}
			}
		}
	}
	for _, j := range jobs {
		c.Eval(fmt.Sprintf("%d/%s/%s", ch.idx, j.label, j.dir), j.recDirty > 0)
	}
	if ch.name == "random" {
		c.Sample(2, map[string]interface{}{"history": ch.idx, "flush_class": ch.class, "statements": len(ch.stmts), "crash_points": len(ch.stmts), "first_statements": stmtTexts[:min(4, len(stmtTexts))]})
	} else if ch.class == "never" {
		c.Sample(4, map[string]interface{}{"template": ch.name, "statements": stmtTexts})
	}
}
