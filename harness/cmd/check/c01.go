package main

import (
	"fmt"
	"strings"
	"time"

	"verif/harness/internal/core"
	"verif/harness/internal/gen"
	"verif/harness/internal/model"
	"verif/harness/proto"
)

func init() {
	checks["C01"] = func(c *core.Ctx) []core.Floor { return historyCheck(c, "C01") }
	checks["C11"] = func(c *core.Ctx) []core.Floor { return historyCheck(c, "C11") }
}

type opMeta struct {
	kind string // stmt dump walk reopen flush other
	stmt *proto.Stmt
	text string
}

type histCase struct {
	idx      int
	kind     string // small deep catalog deeper
	textMode bool
	sc       script
	meta     []opMeta
}

func (hc *histCase) add(op proto.Op, m opMeta) {
	hc.sc.add(op)
	hc.meta = append(hc.meta, m)
}

func (hc *histCase) addStmt(s *proto.Stmt, st model.Style) {
	if hc.textMode && model.StmtTextOK(s) {
		q := model.RenderStmt(s, st)
		hc.add(proto.Op{K: "sql", SQL: proto.Text(q)}, opMeta{kind: "stmt", stmt: s, text: q})
		return
	}
	hc.add(proto.Op{K: "stmt", Stmt: s}, opMeta{kind: "stmt", stmt: s})
}

// addRefused adds a statement that has to be refused and to leave nothing
// behind - in particular nothing that shows when a later statement succeeds.
func (hc *histCase) addRefused(s *proto.Stmt, st model.Style) {
	if hc.textMode && model.StmtTextOK(s) {
		q := model.RenderStmt(s, st)
		hc.add(proto.Op{K: "sql", SQL: proto.Text(q)}, opMeta{kind: "refused", stmt: s, text: q})
		return
	}
	hc.add(proto.Op{K: "stmt", Stmt: s}, opMeta{kind: "refused", stmt: s})
}

func (hc *histCase) other(k string) { hc.add(proto.Op{K: k}, opMeta{kind: k}) }

func (hc *histCase) reopen() {
	hc.add(proto.Op{K: "close"}, opMeta{kind: "other"})
	hc.add(proto.Op{K: "session"}, opMeta{kind: "other"})
	hc.add(proto.Op{K: "sql", SQL: "USE d1"}, opMeta{kind: "reopen"})
}

// crashRecover drops every in-memory structure and runs recovery: with the
// timer off the files are exactly what a kill -9 would leave, so the trees
// that the following walks see were (re)built by log replay.
func (hc *histCase) crashRecover() {
	hc.add(proto.Op{K: "session"}, opMeta{kind: "other"})
	hc.add(proto.Op{K: "init"}, opMeta{kind: "recover"})
	hc.add(proto.Op{K: "session"}, opMeta{kind: "other"})
	hc.add(proto.Op{K: "sql", SQL: "USE d1"}, opMeta{kind: "reopen"})
}

// buildHistory generates one case. Small histories observe after every
// statement; deep ones periodically.
func buildHistory(c *core.Ctx, prop string, idx int, kind string) *histCase {
	r := core.NewRand(core.SubSeed(c.Seed, "HIST", idx)) // C01 and C11 share histories
	hc := &histCase{idx: idx, kind: kind, textMode: idx%2 == 0}
	h := gen.NewHist(r, hc.textMode)
	h.MaxTables = r.Range(1, 4)
	st := model.Style{KwCase: r.Intn(3), WS: r.Intn(3), ZeroPad: r.Chance(1, 3), R: r}
	capPages := 0
	if kind == "smallcache" {
		capPages = r.Range(14, 28)
	}
	hc.add(proto.Op{K: "cfg", N: 1, M: capPages}, opMeta{kind: "other"})
	hc.other("init")
	hc.add(proto.Op{K: "sql", SQL: "CREATE DATABASE d1"}, opMeta{kind: "other"})
	hc.add(proto.Op{K: "sql", SQL: "USE d1"}, opMeta{kind: "other"})
	if idx%4 == 3 {
		// a database that has handed out many row ids before: keys just
		// below 2^16, 2^24, 2^31 and close to 2^32
		hc.add(proto.Op{K: "setlastkey", N: []int{65500, 16777100, 1 << 31, 4294900000, 65530, 255}[(idx/4)%6]}, opMeta{kind: "other"})
	}
	flushMode := r.Intn(3) // 0 never, 1 sometimes, 2 after every statement
	walkLookups := 0
	observe := func(force bool, every int, n int) {
		if force || n%every == 0 {
			if prop == "C11" {
				// the walk peeks at pages and cannot hang on a malformed
				// tree; a SELECT can
				hc.add(proto.Op{K: "walk", M: walkLookups}, opMeta{kind: "walk"})
				hc.other("dump")
				return
			}
			hc.other("dump")
			hc.add(proto.Op{K: "walk", M: walkLookups}, opMeta{kind: "walk"})
		}
	}
	switch kind {
	case "small":
		n := r.Range(15, 60)
		for i := 0; i < n; i++ {
			if r.Chance(1, 10) {
				// a statement on a table that does not exist (yet): refused -
				// the name is the one the history's next CREATE TABLE will
				// use, or one of an existing table in another letter case
				name := h.NextTableName()
				if len(h.DB.Tables) > 0 && r.Chance(1, 3) {
					if tw := strings.ToUpper(h.DB.Tables[r.Intn(len(h.DB.Tables))].Name); h.DB.Table(tw) == nil {
						name = tw
					}
				}
				switch r.Intn(4) {
				case 0, 1:
					hc.addRefused(&proto.Stmt{Kind: "insert", Table: name, Rows: [][]proto.Val{{proto.Int(1), proto.Int(2)}}}, st)
				case 2:
					hc.addRefused(&proto.Stmt{Kind: "update", Table: name, Sets: []proto.SetItem{{Col: "g", Val: proto.Int(1)}}}, st)
				default:
					hc.addRefused(&proto.Stmt{Kind: "delete", Table: name}, st)
				}
			}
			hc.addStmt(h.Next(), st)
			if flushMode == 2 || (flushMode == 1 && r.Chance(1, 4)) {
				hc.other("flush")
			}
			if r.Chance(1, 25) {
				hc.reopen()
			}
			if r.Chance(1, 30) {
				// re-select the current database (other letter case): a no-op
				hc.add(proto.Op{K: "sql", SQL: "USE D1"}, opMeta{kind: "reopen"})
			}
			if prop == "C11" && r.Chance(1, 12) {
				hc.crashRecover()
			}
			observe(true, 1, i)
		}
	case "deep", "deeper":
		// one table grown past the split of its internal root, deletes and
		// updates sprinkled in, plus a second small table
		h.MaxTables = 2
		hc.addStmt(h.Next(), st) // create
		target := 1500 + r.Intn(400)
		if kind == "deeper" {
			target = 6000 + r.Intn(2000)
		}
		t := h.DB.Tables[0]
		i := 0
		for len(t.Rows) < target {
			i++
			if r.Chance(2, 3) {
				hc.addStmt(h.Burst(t, r.Range(60, 400)), st)
			} else {
				hc.addStmt(h.Next(), st)
			}
			if flushMode == 2 || (flushMode == 1 && r.Chance(1, 4)) {
				hc.other("flush")
			}
			if r.Chance(1, 30) {
				hc.reopen()
			}
			if prop == "C11" && r.Chance(1, 10) {
				hc.crashRecover()
				observe(true, 1, 0)
			}
			// around the split of the internal root (290 leaves = about 1165
			// inserted rows) reload from the file after most statements:
			// what only lives in the cache must not hide a page that never
			// reached the file
			if n := len(t.Rows); n > 1000 && n < 2000 && r.Chance(2, 3) {
				hc.other("flush")
				hc.reopen()
				observe(true, 1, 0)
			} else {
				observe(false, 5, i)
			}
		}
		hc.other("flush")
		hc.reopen()
		observe(true, 1, 0)
	case "mirrored":
		// two tables with the same column names in opposite order; statements
		// on the one and on the other follow each other directly, with no
		// SELECT in between: whatever one statement worked out about where a
		// column sits must not be what the next one goes by
		push := func(s *proto.Stmt) bool {
			if f, _, _, err := h.DB.Apply(s); f != "" || err != nil {
				return false
			}
			hc.addStmt(s, st)
			return true
		}
		push(&proto.Stmt{Kind: "create", Table: "ma", Defs: []proto.ColDef{{Name: "k", Type: "int"}, {Name: "v", Type: "int"}, {Name: "w", Type: "int"}}})
		push(&proto.Stmt{Kind: "create", Table: "mb", Defs: []proto.ColDef{{Name: "w", Type: "int"}, {Name: "v", Type: "int"}, {Name: "k", Type: "int"}}})
		for _, tn := range []string{"ma", "mb"} {
			ins := &proto.Stmt{Kind: "insert", Table: tn}
			for i := 0; i < 14; i++ {
				ins.Rows = append(ins.Rows, []proto.Val{proto.Int(int64(r.Intn(6))), proto.Int(int64(r.Intn(6))), proto.Int(int64(r.Intn(6)))})
			}
			push(ins)
		}
		// a third table with a BIGINT column that holds values from both ends
		// of its range: range conditions in DELETE / UPDATE compare them with
		// small literals and with each other
		push(&proto.Stmt{Kind: "create", Table: "mx", Defs: []proto.ColDef{{Name: "k", Type: "int"}, {Name: "b", Type: "bigint"}, {Name: "b2", Type: "bigint"}}})
		{
			ext := []int64{-9223372036854775808, -9223372036854775807, -5000000000000000000, -1, 0, 3, 100, 5000000000000000000, 9223372036854775806, 9223372036854775807}
			ins := &proto.Stmt{Kind: "insert", Table: "mx"}
			for i := 0; i < 16; i++ {
				ins.Rows = append(ins.Rows, []proto.Val{proto.Int(int64(i)), proto.Int(ext[r.Intn(len(ext))]), proto.Int(ext[r.Intn(len(ext))])})
			}
			push(ins)
			for i := 0; i < 4; i++ {
				op := []string{"<", "<=", ">", ">="}[r.Intn(4)]
				w := model.Cmp(op, model.ColOp("b"), model.LitOp(proto.Int([]int64{2, 0, 100, 9223372036854775807, 5000000000000000000}[r.Intn(5)])))
				if r.Chance(1, 3) {
					w = model.Cmp(op, model.ColOp("b"), model.ColOp("b2"))
				}
				if r.Bool() {
					push(&proto.Stmt{Kind: "update", Table: "mx", Sets: []proto.SetItem{{Col: "k", Val: proto.Int(int64(100 + i))}}, Where: w})
				} else {
					push(&proto.Stmt{Kind: "delete", Table: "mx", Where: w})
				}
				observe(true, 1, 0)
			}
		}
		observe(true, 1, 0)
		cond := func() *proto.Cond {
			col := []string{"k", "v", "w"}[r.Intn(3)]
			return model.Cmp([]string{"=", "<", ">="}[r.Intn(3)], model.ColOp(col), model.LitOp(proto.Int(int64(r.Intn(6)))))
		}
		for i := 0; i < 12; i++ {
			a, b := "ma", "mb"
			if r.Bool() {
				a, b = b, a
			}
			first := &proto.Stmt{Kind: "delete", Table: a, Where: cond()}
			if r.Bool() {
				first = &proto.Stmt{Kind: "update", Table: a, Sets: []proto.SetItem{{Col: []string{"k", "v", "w"}[r.Intn(3)], Val: proto.Int(int64(r.Intn(6)))}}, Where: cond()}
			}
			second := &proto.Stmt{Kind: "delete", Table: b, Where: first.Where}
			if r.Chance(1, 3) {
				second = &proto.Stmt{Kind: "update", Table: b, Sets: []proto.SetItem{{Col: "v", Val: proto.Int(9)}}, Where: first.Where}
			}
			push(first)
			push(second)
			observe(true, 1, 0)
			if r.Chance(1, 3) {
				ins := &proto.Stmt{Kind: "insert", Table: b, Rows: [][]proto.Val{{proto.Int(int64(r.Intn(6))), proto.Int(int64(r.Intn(6))), proto.Int(int64(r.Intn(6)))}}}
				push(ins)
			}
		}
	case "deepest":
		// one table grown until its tree is four pages tall (root, two levels
		// of internal nodes, leaf: from about 170 000 rows on), then deletes,
		// more rows and a reload
		h.MaxTables = 1
		hc.addStmt(h.Next(), st) // create
		t := h.DB.Tables[0]
		for len(t.Rows) < 172000 {
			hc.addStmt(h.Burst(t, 4000), st)
			hc.other("flush") // (the timer is off: the cache holds 10000 pages)
		}
		observe(true, 1, 0)
		var maxK int64
		for _, row := range t.Rows {
			if row.Vals[0].I > maxK {
				maxK = row.Vals[0].I
			}
		}
		del := &proto.Stmt{Kind: "delete", Table: t.Name, Where: model.Cmp(">=", model.ColOp("k"), model.LitOp(proto.Int(maxK-20)))}
		if f, _, _, err := h.DB.Apply(del); f == "" && err == nil {
			hc.addStmt(del, st)
		}
		hc.addStmt(h.Burst(t, 300), st)
		hc.other("flush")
		hc.reopen()
		observe(true, 1, 0)
	case "huge":
		// single statements that change thousands of pages, nothing flushed in
		// between, and then the session ends: everything the cache holds has
		// to reach the file through the one flush that closing runs (no timer
		// tick comes after it), and the next session reads it all back
		h.MaxTables = 1
		hc.addStmt(h.Next(), st) // create
		t := h.DB.Tables[0]
		rows := []int{9000, 20000, 17000, 30000, 12500, 36000}[idx%6]
		hc.addStmt(h.Burst(t, rows), st)
		hc.reopen()
		observe(true, 1, 0)
		// a DELETE over most of the table: every leaf it touches is dirty
		var maxK int64
		for _, row := range t.Rows {
			if row.Vals[0].I > maxK {
				maxK = row.Vals[0].I
			}
		}
		del := &proto.Stmt{Kind: "delete", Table: t.Name, Where: model.Cmp("<", model.ColOp("k"), model.LitOp(proto.Int(maxK-int64(rows/10))))}
		if f, _, _, err := h.DB.Apply(del); f == "" && err == nil {
			hc.addStmt(del, st)
			hc.reopen()
			observe(true, 1, 0)
		}
		hc.addStmt(h.Burst(t, 50), st)
		observe(true, 1, 0)
	case "smallcache":
		// a page cache (14-28 pages) smaller than the catalog (10-14 tables):
		// a statement's catalog scan pushes out pages the statement has
		// already looked at, its table's root among them; everything is
		// flushed after every statement (as the timer would), so that those
		// pages are clean and evictable. A statement the small cache refuses
		// ends the history.
		h.MaxTables = 1 << 30
		nt := r.Range(10, 14)
		for i := 0; i < nt; i++ {
			s := h.CreateTable()
			if f, _, _, err := h.DB.Apply(s); f != "" || err != nil {
				panic("smallcache case: create failed in model")
			}
			hc.addStmt(s, st)
			hc.other("flush")
		}
		h.MaxTables = nt
		n := r.Range(40, 90)
		for i := 0; i < n; i++ {
			if r.Bool() {
				t := h.DB.Tables[r.Intn(3)]
				ins := h.Insert(t, r.Range(1, 3))
				if f, _, _, err := h.DB.Apply(ins); f != "" || err != nil {
					continue
				}
				hc.addStmt(ins, st)
			} else {
				hc.addStmt(h.Next(), st)
			}
			hc.other("flush")
			if r.Chance(1, 30) {
				hc.reopen()
			}
			observe(true, 1, i)
		}
	case "catalog":
		// many tables: sys_pages / sys_schema themselves split
		h.MaxTables = 1 << 30
		n := r.Range(30, 70)
		for i := 0; i < n; i++ {
			s := h.CreateTable()
			if f, _, _, err := h.DB.Apply(s); f != "" || err != nil {
				panic("catalog case: create failed in model")
			}
			hc.addStmt(s, st)
			for k := r.Intn(3); k > 0; k-- {
				t := h.DB.Tables[r.Intn(len(h.DB.Tables))]
				ins := h.Insert(t, r.Range(1, 10))
				if f, _, _, err := h.DB.Apply(ins); f == "" && err == nil {
					hc.addStmt(ins, st)
				}
			}
			if i >= 7 && r.Chance(1, 5) {
				// with a two-level catalog: one statement that moves a table's
				// root (its catalog row then lives in a catalog leaf, not in the
				// catalog's root); for C11 the move is then redone by log replay
				t := h.DB.Tables[r.Intn(len(h.DB.Tables))]
				if len(t.Rows) < 9 {
					ins := h.Insert(t, r.Range(9, 14))
					if f, _, _, err := h.DB.Apply(ins); f == "" && err == nil {
						hc.addStmt(ins, st)
						if prop == "C11" {
							hc.crashRecover()
						}
						observe(true, 1, 0)
					}
				}
			}
			if r.Chance(1, 15) {
				hc.reopen()
			}
			observe(false, 3, i)
		}
		observe(true, 1, 0)
	}
	return hc
}

func historyCheck(c *core.Ctx, prop string) []core.Floor {
	c.Level = "exploration"
	if prop == "C01" {
		c.Rule = "seeded histories of CREATE TABLE/INSERT/UPDATE/DELETE over 1-4 tables (half as SQL text through Session.ExecQuery, half as direct values), random flush placement and reopen; one statement in ten is preceded by an INSERT / UPDATE / DELETE on a table that does not exist yet (refused; the name is the one the next CREATE TABLE uses); SELECT * of every table and of the catalog compared with an in-memory model after every statement (small) or every 5 statements (deep/catalog); twelve histories over two tables with the same column names in opposite order, statements on the one and the other following each other directly (compared after every pair); two histories (six in the thorough tier) with single statements of 9000-36000 rows, nothing flushed, then the session closed and reopened. Distinct = script hash; non-trivial = the history contained a leaf split after a delete on the same table, or a root move."
	} else {
		c.Rule = "same histories as C01; every page reachable from every table root dumped at quiescent points (between statements, timer off) and checked for the shape invariants, with the engine's own point lookup and reverse scan run on every stored key; about one statement in twelve is followed by dropping every in-memory structure and running recovery, so that many of the walked trees were rebuilt by log replay; one history in seventeen runs with a page cache of 14-28 pages, smaller than its catalog of 10-14 tables, flushing after every statement, so that pages a statement has already looked at (its table's root among them) are pushed out while it scans the catalog. Distinct = script hash; non-trivial = the walk saw a tree with >= 2 levels."
	}
	c.Assume = []string{"the verif accessors report page state faithfully", "flush placement is driven by the checker with the timer off (same flushPages code the timer runs)"}
	drv := mustDriver(c, false)
	var cases []*histCase
	nSmall, nDeep, nCat, nDeeper := 400, 8, 6, 0
	if !core.Quick(c) {
		nSmall, nDeep, nCat, nDeeper = 6000, 64, 40, 6
	}
	for i := 0; i < nDeep; i++ {
		cases = append(cases, buildHistory(c, prop, 1000000+i, "deep"))
	}
	for i := 0; i < nDeeper; i++ {
		cases = append(cases, buildHistory(c, prop, 3000000+i, "deeper"))
	}
	for i := 0; i < nCat; i++ {
		cases = append(cases, buildHistory(c, prop, 2000000+i, "catalog"))
	}
	for i := 0; i < 12; i++ {
		cases = append(cases, buildHistory(c, prop, 6000000+i, "mirrored"))
	}
	// (one tree of four levels: in the quick tier for C11 only, where the walk
	// is what counts; in the thorough tier for both)
	if prop == "C11" || !core.Quick(c) {
		cases = append(cases, buildHistory(c, prop, 7000000, "deepest"))
	}
	nHuge := 2
	if !core.Quick(c) {
		nHuge = 6
	}
	for i := 0; i < nHuge; i++ {
		cases = append(cases, buildHistory(c, prop, 5000000+i, "huge"))
	}
	if prop == "C11" {
		for i := 0; i < nSmall/16; i++ {
			cases = append(cases, buildHistory(c, prop, 4000000+i, "smallcache"))
		}
	}
	for i := 0; i < nSmall; i++ {
		cases = append(cases, buildHistory(c, prop, i, "small"))
	}
	core.ParallelFor(len(cases), c.Workers, func(i int) {
		runHistoryCase(c, prop, drv, cases[i])
	})
	if prop == "C01" {
		return []core.Floor{{Key: "tombstone_crossed_split", Min: 1}, {Key: "internal_splits", Min: 1}, {Key: "catalog_root_moves", Min: 1}, {Key: "dumps_compared", Min: 100}}
	}
	return []core.Floor{{Key: "walks", Min: 100}, {Key: "walks_depth3", Min: 1}, {Key: "max_depth", Min: 4}, {Key: "pages_checked", Min: 1000}, {Key: "recoveries_that_rebuilt_pages", Min: 20}, {Key: "histories_smallcache", Min: 10}}
}

func runHistoryCase(c *core.Ctx, prop, drv string, hc *histCase) {
	dir := c.CaseDir("h")
	defer removeAll(dir)
	out := core.RunScript(drv, dir, hc.sc.ops, 120*time.Second)
	m := model.NewDB()
	grave := model.Graveyard{}
	var prevStats map[string]*treeStat
	var cov walkCov
	nStmts := 0
	deleteSeen := map[string]bool{}
	splitAfterDelete := false
	replay := func(upto int) interface{} {
		n := upto + 1
		if n > len(hc.sc.ops) {
			n = len(hc.sc.ops)
		}
		return map[string]interface{}{"case": hc.idx, "kind": hc.kind, "text_mode": hc.textMode, "ops": hc.sc.ops[:n]}
	}
	violated := false
	for i := range out.Res {
		res := &out.Res[i]
		mt := hc.meta[res.ID]
		if res.Panic != "" {
			c.Violation(prop+":panic:"+res.Frame, fmt.Sprintf("op %d (%s) panicked: %s", res.ID, mt.kind, res.Panic), replay(res.ID))
			violated = true
			break
		}
		switch mt.kind {
		case "refused":
			if res.Err == "" {
				c.Inconclusive("not-refused", "a statement on a missing table was accepted (C14's / C18's business): "+describe(mt))
				violated = true
				break
			}
			c.Count("refused_statements_on_missing_tables", 1)
		case "stmt":
			nStmts++
			c.Count("stmts_"+mt.stmt.Kind, 1)
			if res.Err != "" {
				if prop == "C01" {
					c.Violation("C01:statement-failed:"+mt.stmt.Kind, fmt.Sprintf("statement %s expected to succeed returned: %s", describe(mt), res.Err), replay(res.ID))
				}
				violated = true
				break
			}
			before := map[string]uint32{}
			if t := m.Table(mt.stmt.Table); t != nil && mt.stmt.Kind == "delete" {
				for _, r := range t.Rows {
					before[fmt.Sprint(r.Seq)] = r.ID
				}
			}
			fail, _, _, err := m.Apply(mt.stmt)
			if fail != "" || err != nil {
				c.Inconclusive("model", fmt.Sprintf("model rejects generated statement: %s %v", fail, err))
				violated = true
				break
			}
			if mt.stmt.Kind == "delete" {
				t := m.Table(mt.stmt.Table)
				left := map[string]bool{}
				for _, r := range t.Rows {
					left[fmt.Sprint(r.Seq)] = true
				}
				for k, id := range before {
					if !left[k] {
						grave.Add(t.Name, id)
						deleteSeen[t.Name] = true
					}
				}
			}
		case "dump":
			if prop != "C01" {
				continue
			}
			c.Count("dumps_compared", 1)
			if res.Err != "" {
				c.Violation("C01:dump-error", "catalog unreadable: "+res.Err, replay(res.ID))
				violated = true
				break
			}
			if df := m.CheckDump("C01", res.Tables, grave, true); df != nil {
				c.Violation(df.Sig, df.What, replay(res.ID))
				violated = true
			}
		case "walk":
			if res.Err != "" {
				if prop == "C11" {
					c.Violation("C11:walk-error", res.Err, replay(res.ID))
					violated = true
				}
				break
			}
			stats, df := checkTrees(res.Trees)
			if prop == "C11" {
				c.Count("walks", 1)
				np := 0
				for _, t := range res.Trees {
					np += len(t.Pages)
				}
				c.Count("pages_checked", int64(np))
				if df != nil {
					c.Violation(df.Sig, df.What, replay(res.ID))
					violated = true
					break
				}
			}
			if df == nil {
				if prevStats != nil {
					before := cov.LeafSplits
					cov.delta(prevStats, stats)
					if cov.LeafSplits > before {
						for name, s := range stats {
							if p := prevStats[name]; p != nil && s.Leaves > p.Leaves && deleteSeen[name] {
								splitAfterDelete = true
							}
						}
					}
				}
				prevStats = stats
				for _, s := range stats {
					if s.Depth >= 3 && prop == "C11" {
						c.Count("walks_depth3", 1)
						break
					}
				}
			}
		case "recover":
			c.Count("walks_after_crash_and_replay_cycles", 1)
			if res.N > 0 {
				c.Count("recoveries_that_rebuilt_pages", 1)
			}
			if res.Err != "" {
				c.Violation(prop+":recovery-failed:"+errClass(res.Err), "InitStorage after dropping the session failed: "+res.Err, replay(res.ID))
				violated = true
			}
		case "reopen":
			c.Count("reopens", 1)
			if res.Err != "" {
				c.Violation(prop+":reopen-failed", "USE after close failed: "+res.Err, replay(res.ID))
				violated = true
			}
		default:
			if res.Err != "" {
				c.Violation(prop+":op-failed:"+mt.kind, fmt.Sprintf("op %d %s failed: %s", res.ID, mt.kind, res.Err), replay(res.ID))
				violated = true
			}
		}
		if violated {
			break
		}
	}
	if !violated && out.Died {
		if out.TimedOut {
			c.Inconclusive("watchdog", fmt.Sprintf("case %d: driver exceeded the wall-clock watchdog at op %d", hc.idx, out.LastBeg))
		} else {
			kind := "?"
			if out.LastBeg >= 0 && out.LastBeg < len(hc.meta) {
				kind = hc.meta[out.LastBeg].kind
			}
			c.Violation(prop+":process-died:"+kind, fmt.Sprintf("driver died in op %d (%s): %s %s", out.LastBeg, kind, core.FatalTail(out.Stderr), out.ExitErr), replay(out.LastBeg))
		}
	}
	c.Count("leaf_splits", cov.LeafSplits)
	c.Count("internal_splits", cov.InternalSplits)
	c.Count("root_moves", cov.RootMoves)
	c.Count("catalog_root_moves", cov.CatalogRootMoves)
	c.Count("tombstone_crossed_split", cov.TombCrossed)
	c.Max("max_depth", cov.MaxDepth)
	c.Count("histories_"+hc.kind, 1)
	nontrivial := splitAfterDelete || cov.RootMoves > 0
	if prop == "C11" {
		nontrivial = cov.MaxDepth >= 2
	}
	c.Eval(fmt.Sprintf("%s/%d/%d", hc.kind, hc.idx, len(hc.sc.ops)), nontrivial)
	if hc.kind == "small" {
		var texts []string
		for _, mt := range hc.meta {
			if mt.kind == "stmt" && len(texts) < 6 {
				texts = append(texts, describe(mt))
			}
		}
		c.Sample(3, map[string]interface{}{"case": hc.idx, "kind": hc.kind, "statements": nStmts, "first_statements": texts, "leaf_splits": cov.LeafSplits})
	}
}

func describe(mt opMeta) string {
	if mt.text != "" {
		return clip(mt.text, 300)
	}
	if mt.stmt != nil {
		return "[direct] " + clip(model.RenderStmt(mt.stmt, model.Plain), 300)
	}
	return mt.kind
}

func clip(s string, n int) string {
	if len(s) > n {
		return s[:n] + "..."
	}
	return s
}
