package main

import (
	"fmt"
	"strings"
	"time"

	"verif/harness/internal/core"
	"verif/harness/internal/gen"
	"verif/harness/internal/model"
	"verif/harness/proto"
)

// runC07Requery: the same bare aggregates asked again and again in ONE session
// while the tables - and the catalog - change in between. COUNT(*) must be the
// number of rows SELECT * returns at that moment, for user tables and for the
// catalog tables alike, COUNT(col) the number of non-NULL values; an answer
// remembered from an earlier question would show here.
func runC07Requery(c *core.Ctx, drv string, idx int) {
	r := core.NewRand(core.SubSeed(c.Seed, "C07R", idx))
	dir := c.CaseDir("c07r")
	defer removeAll(dir)
	h := gen.NewHist(r, true)
	h.MaxTables = r.Range(2, 5)
	var s script
	s.open(true, 0, "d1", true)
	type probe struct {
		op    int
		kind  string // star count countcol
		table string
		col   string
		step  int
		text  string
	}
	var probes []probe
	var hist []string
	m := model.NewDB()
	tables := func() []string {
		out := []string{"sys_pages", "sys_schema"}
		for _, t := range m.Tables {
			out = append(out, t.Name)
		}
		return out
	}
	steps := r.Range(6, 14)
	for st := 0; st < steps; st++ {
		stmt := h.Next()
		if f, _, _, err := m.Apply(stmt); f != "" || err != nil {
			c.Inconclusive("generator", "C07 requery: statement rejected by the oracle model")
			return
		}
		s.stmt(stmt)
		hist = append(hist, clip(model.RenderStmt(stmt, model.Plain), 160))
		if st%3 == 2 && r.Bool() {
			s.k("flush")
		}
		for _, tn := range tables() {
			variants := []string{"SELECT COUNT(*) FROM " + tn, "select count(*) from " + tn, "SELECT COUNT(*) AS n FROM " + tn, "SELECT COUNT(*) FROM " + tn + " LIMIT 1"}
			q := variants[r.Intn(len(variants))]
			if st > 0 && r.Chance(2, 3) {
				q = variants[0] // the very same text as before
			}
			probes = append(probes, probe{op: s.query(q), kind: "count", table: tn, step: st, text: q})
			probes = append(probes, probe{op: s.query("SELECT * FROM " + tn), kind: "star", table: tn, step: st})
			if t := m.Table(tn); t != nil && len(t.Cols) > 0 {
				col := t.Cols[r.Intn(len(t.Cols))].Name
				q := fmt.Sprintf("SELECT COUNT(%s) FROM %s", col, tn)
				probes = append(probes, probe{op: s.query(q), kind: "countcol", table: tn, col: col, step: st, text: q})
				if st%2 == 1 {
					// every column of the table as a grouping column, the
					// aggregate behind them: a select list one longer than the
					// table is wide
					var cols []string
					for _, cl := range t.Cols {
						cols = append(cols, cl.Name)
					}
					q := fmt.Sprintf("SELECT %s, COUNT(*) FROM %s GROUP BY %s", strings.Join(cols, ", "), tn, strings.Join(cols, ", "))
					probes = append(probes, probe{op: s.query(q), kind: "groupall", table: tn, step: st, text: q})
				}
			}
		}
	}
	out := core.RunScript(drv, dir, s.ops, 120*time.Second)
	if out.Died {
		if out.TimedOut {
			c.Inconclusive("watchdog", "C07 requery script exceeded the watchdog")
		} else {
			c.Violation("C07:process-died:"+errClass(core.FatalTail(out.Stderr)), "driver died during repeated aggregates: "+core.FatalTail(out.Stderr), map[string]interface{}{"case": idx, "statements": hist})
		}
		return
	}
	for _, rr := range out.Res {
		if rr.Panic != "" {
			c.Violation("C07:panic:"+rr.Frame, rr.Panic, map[string]interface{}{"case": idx, "statements": hist})
			return
		}
	}
	// rows of SELECT * per (step, table)
	star := map[string]*proto.Res{}
	for _, p := range probes {
		if p.kind == "star" {
			star[fmt.Sprint(p.step, "/", p.table)] = &out.Res[p.op]
		}
	}
	for _, p := range probes {
		if p.kind == "star" {
			continue
		}
		res := &out.Res[p.op]
		sr := star[fmt.Sprint(p.step, "/", p.table)]
		if sr == nil || sr.Err != "" {
			continue // reading the table is C01's business
		}
		rp := map[string]interface{}{"case": idx, "statements_so_far": hist[:p.step+1], "query": p.text, "how": "one session, timer off; the query is asked after every statement of the history"}
		if res.Err != "" {
			c.Violation("C07:requery:query-error", fmt.Sprintf("%s returned %s", p.text, res.Err), rp)
			return
		}
		if p.kind == "groupall" {
			want := map[string]int64{}
			hasNull := false
			for _, row := range sr.Rows {
				key := ""
				for _, v := range row.Vals {
					if v.IsNull() {
						hasNull = true
					}
					key += v.Enc() + "|"
				}
				want[key]++
			}
			if hasNull {
				continue // how NULLs group is not stated
			}
			got := map[string]int64{}
			bad := ""
			for _, row := range res.Rows {
				if len(row.Vals) < 1 || row.Vals[len(row.Vals)-1].K != 'i' {
					bad = "a result row without an integer count in last place"
					break
				}
				key := ""
				for _, v := range row.Vals[:len(row.Vals)-1] {
					key += v.Enc() + "|"
				}
				got[key] += row.Vals[len(row.Vals)-1].I
				if _, dup := want[key]; !dup {
					bad = "a group that no row of the table belongs to"
				}
			}
			if bad == "" && len(res.Rows) != len(want) {
				bad = fmt.Sprintf("%d groups, the table has %d distinct rows", len(res.Rows), len(want))
			}
			for k, n := range want {
				if bad == "" && got[k] != n {
					bad = fmt.Sprintf("a group counted %d times, the table has %d such rows", got[k], n)
				}
			}
			if bad != "" {
				c.Violation("C07:requery:group-by-all-columns", fmt.Sprintf("after %d statements %s: %s", p.step+1, p.text, bad), rp)
				return
			}
			c.Count("group_by_every_column_compared", 1)
			continue
		}
		if len(res.Rows) != 1 || len(res.Rows[0].Vals) != 1 || res.Rows[0].Vals[0].K != 'i' {
			c.Violation("C07:requery:result-shape", fmt.Sprintf("%s returned %d rows", p.text, len(res.Rows)), rp)
			return
		}
		got := res.Rows[0].Vals[0].I
		want := int64(len(sr.Rows))
		if p.kind == "countcol" {
			want = 0
			ci := -1
			for i, cn := range sr.Cols {
				if cn == p.col {
					ci = i
				}
			}
			if ci < 0 {
				continue
			}
			for _, row := range sr.Rows {
				if ci < len(row.Vals) && !row.Vals[ci].IsNull() {
					want++
				}
			}
		}
		rp["expected"], rp["observed"] = want, got
		if got != want {
			sig := "C07:requery:count-differs-from-rows"
			if p.table == "sys_pages" || p.table == "sys_schema" {
				sig = "C07:requery:count-differs-from-rows:catalog"
			}
			c.Violation(sig, fmt.Sprintf("after %d statements %s = %d, SELECT * at the same moment has %d such rows", p.step+1, p.text, got, want), rp)
			return
		}
		c.Count("repeated_aggregates_compared", 1)
		if p.table == "sys_pages" || p.table == "sys_schema" {
			c.Count("repeated_aggregates_on_catalog_tables", 1)
		}
	}
	c.Count("requery_sessions", 1)
	c.Eval(fmt.Sprintf("requery-%d", idx), steps > 2)
}
