package main

import (
	"encoding/json"
	"fmt"
	"hash/fnv"
	"strings"
	"time"

	"verif/harness/internal/core"
	"verif/harness/internal/gen"
	"verif/harness/internal/nodespec"
	"verif/harness/proto"
)

func init() {
	checks["C12"] = checkC12
}

type nodeRes struct {
	BuildErr  string      `json:"buildErr"`
	Before    *proto.Page `json:"before"`
	EncLen    int         `json:"encLen"`
	EncErr    string      `json:"encErr"`
	Decoded   *proto.Page `json:"decoded"`
	DecErr    string      `json:"decErr"`
	Stored    *proto.Page `json:"stored"`
	StoreErr  string      `json:"storeErr"`
	Reencoded *proto.Page `json:"reencoded"`
	ReencLen  int         `json:"reencLen"`
	ReencErr  string      `json:"reencErr"`
}

// logical renders the logical content of a page (what the property says must
// survive): kind, offset, LSN, sibling flags and the offsets they guard,
// right-most child, ordered cells with key / tombstone / value.
func logical(p *proto.Page) string {
	s := fmt.Sprintf("leaf=%v off=%d lsn=%d", p.Leaf, p.Off, p.LSN)
	if p.Leaf {
		s += fmt.Sprintf(" hasL=%v hasR=%v", p.HasL, p.HasR)
		if p.HasL {
			s += fmt.Sprintf(" l=%d", p.LSib)
		}
		if p.HasR {
			s += fmt.Sprintf(" r=%d", p.RSib)
		}
		for i, k := range p.Keys {
			s += fmt.Sprintf(" (%d,%v,%d,%x)", k, p.Deleted[i], p.ValLens[i], p.ValHash[i])
		}
	} else {
		s += fmt.Sprintf(" right=%d", p.Right)
		for i, k := range p.Keys {
			s += fmt.Sprintf(" (%d->%d)", k, p.Children[i])
		}
	}
	if p.Err != "" {
		s += " ERR=" + p.Err
	}
	return s
}

func hash64o(b []byte) uint64 {
	h := fnv.New64a()
	h.Write(b)
	return h.Sum64()
}

// startKey: where the ascending keys of a node begin - small numbers, the
// top of the key space (room for span more, no wrap-around), around 2^16 and
// 2^24 (every byte of the key gets to differ from its neighbours), anywhere.
func startKey(r *core.Rand, span int) uint32 {
	top := ^uint32(0) - uint32(span)
	switch r.Intn(10) {
	case 0:
		return top
	case 1:
		return uint32(1<<16) - uint32(r.Intn(span+1))
	case 2:
		return uint32(1<<24) - uint32(r.Intn(span+1))
	case 3, 4:
		return uint32(r.U64() % uint64(top))
	case 5:
		return uint32(r.Intn(256))<<16 | uint32(r.Intn(256))<<8 | uint32(r.Intn(256))
	}
	return uint32(r.Intn(1000))
}

var lsnChoices = []uint64{0, 1, 1 << 32, ^uint64(0)}

func genLeaf(r *core.Rand, ncells int, vlen func(i int) int, tomb uint, flags int, lsn uint64, off uint64) nodespec.Spec {
	sp := nodespec.Spec{Leaf: true, Off: off}
	key := startKey(r, 3*ncells+2)
	for i := 0; i < ncells; i++ {
		key += uint32(r.Range(1, 3))
		sp.Acts = append(sp.Acts, nodespec.Act{A: "ins", Key: key, VLen: vlen(i), VSeed: r.U64()})
		if tomb&(1<<uint(i)) != 0 {
			sp.Acts = append(sp.Acts, nodespec.Act{A: "del", Key: key})
		}
	}
	sp.Acts = append(sp.Acts, nodespec.Act{A: "sibs", HasL: flags&1 != 0, HasR: flags&2 != 0, L: uint64(r.Intn(1<<20)) * 4096, R: uint64(r.U64() >> 24)})
	sp.Acts = append(sp.Acts, nodespec.Act{A: "dirty", LSN: lsn})
	return sp
}

func checkC12(c *core.Ctx) []core.Floor {
	c.Rule = "nodes built with the engine's own primitives (sorted insert, split halves, updateCell, tombstone, markDirty, sibling links): leaves with every cell count 0-9, value lengths over 0..400 (all 401 in thorough, boundaries + sampled in quick), every tombstone mask for <= 6 cells, all four sibling-flag combinations, LSN in {0,1,2^32,2^64-1}; internal nodes with 0-290 cells and child offsets up to 2^40; both halves straight out of split. For each node: the encoding must be exactly 4096 bytes; decode(encode(n)), decode(encode(decode(encode(n)))) and a write through one fileStore + read through a second, cold fileStore must all have the same logical content as n; half of the nodes are processed by four goroutines side by side, each with its own nodes and store files (several open databases flushing at the same moment). Plus real pages: in histories with a flush after every statement every clean cached node is compared with the page decoded from the file, and no flush may fail (one history in four also runs a queue table: rows appended at the tail, the oldest deleted, so that the rightmost leaf collects tombstones while it is still being inserted into). Distinct = node spec; non-trivial = the node has at least one cell."
	c.Assume = []string{"only shapes the engine's primitives produce with ascending keys are judged", "byte layout of the free gap is not compared, only logical content"}
	drv := mustDriver(c, false)
	r := core.NewRand(core.SubSeed(c.Seed, "C12", 0))
	var specs []nodespec.Spec
	off := func() uint64 { return uint64(r.Range(1, 1000)) * 4096 }
	quick := core.Quick(c)
	// leaves: all counts x flags x lsn
	for n := 0; n <= 9; n++ {
		for fl := 0; fl < 4; fl++ {
			for _, lsn := range lsnChoices {
				specs = append(specs, genLeaf(r, n, func(int) int { return []int{0, 1, 7, 200, 399, 400}[r.Intn(6)] }, uint(r.Intn(1<<uint(n))), fl, lsn, off()))
			}
		}
	}
	// every tombstone mask for <= 6 cells
	for n := 1; n <= 6; n++ {
		for m := uint(0); m < 1<<uint(n); m++ {
			specs = append(specs, genLeaf(r, n, func(int) int { return r.Intn(40) }, m, r.Intn(4), lsnChoices[r.Intn(4)], off()))
		}
	}
	// value lengths
	var lens []int
	if quick {
		lens = []int{0, 1, 2, 3, 127, 128, 255, 256, 398, 399, 400}
		for i := 0; i < 40; i++ {
			lens = append(lens, r.Intn(401))
		}
	} else {
		for l := 0; l <= 400; l++ {
			lens = append(lens, l)
		}
	}
	for _, l := range lens {
		l := l
		for _, n := range []int{1, 9} {
			specs = append(specs, genLeaf(r, n, func(int) int { return l }, 0, r.Intn(4), 5, off()))
		}
	}
	// fullest possible leaf
	specs = append(specs, genLeaf(r, 9, func(int) int { return 400 }, 0x155, 3, ^uint64(0), off()))
	// updateCell: grow and shrink values
	for i := 0; i < 40; i++ {
		sp := genLeaf(r, r.Range(1, 8), func(int) int { return r.Intn(401) }, 0, r.Intn(4), 9, off())
		var keys []uint32
		for _, a := range sp.Acts {
			if a.A == "ins" {
				keys = append(keys, a.Key)
			}
		}
		for k := 0; k < 3; k++ {
			sp.Acts = append(sp.Acts, nodespec.Act{A: "upd", Key: keys[r.Intn(len(keys))], VLen: []int{0, 400, r.Intn(401)}[r.Intn(3)], VSeed: r.U64()})
		}
		specs = append(specs, sp)
	}
	// leaf split halves
	for i := 0; i < 24; i++ {
		sp := genLeaf(r, 9, func(int) int { return r.Intn(401) }, uint(r.Intn(512)), r.Intn(4), uint64(r.Intn(100)), off())
		keep := []string{"left", "right"}[i%2]
		sp.Acts = append(sp.Acts, nodespec.Act{A: "split", Keep: keep, Off: off()})
		if keep == "right" {
			sp.Acts = append(sp.Acts, nodespec.Act{A: "sibs", HasL: true, L: off()}, nodespec.Act{A: "dirty", LSN: 77})
		}
		specs = append(specs, sp)
	}
	// internal nodes
	var counts []int
	if quick {
		counts = []int{0, 1, 2, 3, 144, 145, 146, 288, 289, 290}
		for i := 0; i < 20; i++ {
			counts = append(counts, r.Intn(291))
		}
	} else {
		for n := 0; n <= 290; n++ {
			counts = append(counts, n)
		}
	}
	internal := func(n int, bigOff bool) nodespec.Spec {
		sp := nodespec.Spec{Leaf: false, Off: off()}
		key := startKey(r, 50*n+2)
		for i := 0; i < n; i++ {
			key += uint32(r.Range(1, 50))
			ch := uint64(r.Intn(1<<20)) * 4096
			if bigOff {
				ch = (uint64(1)<<40 - uint64(r.Intn(1000))) &^ 4095
			}
			sp.Acts = append(sp.Acts, nodespec.Act{A: "appendInternal", Key: key, Child: ch})
		}
		sp.Acts = append(sp.Acts, nodespec.Act{A: "right", Child: uint64(r.Intn(1<<20)) * 4096}, nodespec.Act{A: "dirty", LSN: lsnChoices[r.Intn(4)]})
		return sp
	}
	for _, n := range counts {
		specs = append(specs, internal(n, false), internal(n, true))
	}
	for i := 0; i < 8; i++ {
		sp := internal(290, i%2 == 0)
		sp.Acts = append(sp.Acts, nodespec.Act{A: "split", Keep: []string{"left", "right"}[(i/2)%2], Off: off()})
		specs = append(specs, sp)
	}
	// random nodes
	nRandom := 3000
	if !quick {
		nRandom = 60000
	}
	for i := 0; i < nRandom; i++ {
		if r.Chance(1, 5) {
			specs = append(specs, internal(r.Intn(291), r.Bool()))
			continue
		}
		n := r.Intn(10)
		sp := genLeaf(r, n, func(int) int {
			if r.Chance(1, 4) {
				return []int{0, 1, 399, 400}[r.Intn(4)]
			}
			return r.Intn(401)
		}, uint(r.Intn(1<<uint(n))), r.Intn(4), lsnChoices[r.Intn(4)], off())
		if n > 0 && r.Chance(1, 3) {
			var keys []uint32
			for _, a := range sp.Acts {
				if a.A == "ins" {
					keys = append(keys, a.Key)
				}
			}
			sp.Acts = append(sp.Acts, nodespec.Act{A: "upd", Key: keys[r.Intn(len(keys))], VLen: r.Intn(401), VSeed: r.U64()})
		}
		if n == 9 && r.Chance(1, 2) {
			sp.Acts = append(sp.Acts, nodespec.Act{A: "split", Keep: []string{"left", "right"}[r.Intn(2)], Off: off()})
		}
		specs = append(specs, sp)
	}
	// run in chunks
	chunk := 64
	nChunks := (len(specs) + chunk - 1) / chunk
	core.ParallelFor(nChunks, c.Workers, func(ci int) {
		lo, hi := ci*chunk, (ci+1)*chunk
		if hi > len(specs) {
			hi = len(specs)
		}
		dir := c.CaseDir("c12")
		defer removeAll(dir)
		b, _ := json.Marshal(specs[lo:hi])
		// every other chunk is worked on by four goroutines side by side
		// (each with its own nodes and store files): what a node encodes to
		// must not depend on what else is being encoded in the process
		par := 0
		if ci%2 == 1 {
			par = 4
			c.Count("chunks_encoded_by_four_goroutines_side_by_side", 1)
		}
		out := core.RunScript(drv, dir, []proto.Op{{K: "node", Raw: b, N: par}}, 120*time.Second)
		if out.Died || out.Res[0].Failed() {
			c.Violation("C12:process-died-or-panic", fmt.Sprintf("%s %s %s", core.FatalTail(out.Stderr), out.ExitErr, func() string {
				if len(out.Res) > 0 {
					return out.Res[0].Panic + out.Res[0].Err
				}
				return ""
			}()), specs[lo:hi])
			return
		}
		var rs []nodeRes
		if err := json.Unmarshal(out.Res[0].Raw, &rs); err != nil {
			c.Inconclusive("harness", err.Error())
			return
		}
		for i, nr := range rs {
			sp := specs[lo+i]
			judgeNode(c, sp, nr)
		}
	})
	// real pages: histories with a flush after every statement; every clean
	// cached node must equal the page the file holds for it
	nh := 24
	if !quick {
		nh = 400
	}
	core.ParallelFor(nh, c.Workers, func(i int) {
		hr := core.NewRand(core.SubSeed(c.Seed, "C12H", i))
		h := gen.NewHist(hr, false)
		h.MaxTables = hr.Range(1, 3)
		if i%4 == 3 {
			h.MaxTables = hr.Range(8, 12) // the catalog trees get a second level: their leaves are pages like any other
		}
		dir := c.CaseDir("c12h")
		defer removeAll(dir)
		var s script
		s.cfg(true, 0)
		s.k("init")
		s.sql("CREATE DATABASE d1")
		s.sql("USE d1")
		var walks []int
		var flushes []int
		queue := i%4 == 1
		if queue {
			s.sql("CREATE TABLE q (k INT, pad VARCHAR(255))")
		}
		qHead, qTail := 0, 0
		n := hr.Range(20, 60)
		if i%4 == 3 {
			n = hr.Range(50, 90)
		}
		for k := 0; k < n; k++ {
			if hr.Chance(1, 6) && len(h.DB.Tables) > 0 {
				s.stmt(h.Burst(h.DB.Tables[0], hr.Range(30, 120)))
			} else {
				s.stmt(h.Next())
			}
			if queue {
				// a queue: new rows at the tail, the oldest ones deleted, so
				// that the rightmost leaf collects tombstones while it is
				// still being inserted into
				for x := hr.Range(1, 3); x > 0; x-- {
					s.sql(fmt.Sprintf("INSERT INTO q VALUES (%d, '%s')", qTail, strings.Repeat("p", hr.Range(60, 250))))
					qTail++
				}
				for qTail-qHead > 2 {
					s.sql(fmt.Sprintf("DELETE FROM q WHERE k = %d", qHead))
					qHead++
				}
			}
			flushes = append(flushes, s.k("flush"))
			walks = append(walks, s.add(proto.Op{K: "walk", M: 1, S: "filecmp"}))
			if hr.Chance(1, 10) {
				s.k("close")
				s.k("session")
				s.sql("USE d1")
			}
		}
		out := core.RunScript(drv, dir, s.ops, 120*time.Second)
		if out.Died {
			c.Inconclusive("harvest", "harvest history died: "+core.FatalTail(out.Stderr))
			return
		}
		for _, fi := range flushes {
			// a node that cannot be written as one page shows as a failing flush
			if r := out.Res[fi]; r.Panic != "" || r.Err != "" {
				c.Violation("C12:real-page:flush-failed:"+errClass(r.Panic+r.Err), "writing the changed pages of a real history failed: "+clip(r.Panic+r.Err, 300), map[string]interface{}{"history": i, "ops_before": fi, "queue_table": queue})
				return
			}
		}
		if queue {
			c.Count("harvest_histories_with_a_queue_table", 1)
		}
		for _, w := range walks {
			r := out.Res[w]
			if r.Failed() {
				c.Inconclusive("harvest", "walk failed: "+r.Err+r.Panic)
				return
			}
			c.Count("harvested_pages_compared_with_file", int64(r.Count))
			for _, t := range r.Trees {
				for _, pgd := range t.Pages {
					if strings.HasPrefix(pgd.Err, "filecmp:") {
						c.Violation("C12:real-page:file-differs-from-cached-node", fmt.Sprintf("table %s page %d: %s", t.Table, pgd.Off, clip(pgd.Err, 900)), map[string]interface{}{"history": i, "ops_before": w})
						return
					}
				}
			}
		}
		c.Eval(fmt.Sprintf("harvest-%d", i), true)
	})
	c.Sample(2, specs[3])
	return []core.Floor{{Key: "nodes", Min: 500}, {Key: "leaf_9_cells_400_bytes", Min: 1}, {Key: "internal_290_cells", Min: 1}, {Key: "flags_0", Min: 1}, {Key: "flags_1", Min: 1}, {Key: "flags_2", Min: 1}, {Key: "flags_3", Min: 1}, {Key: "split_halves", Min: 10}, {Key: "store_round_trips", Min: 400}, {Key: "harvested_pages_compared_with_file", Min: 2000}, {Key: "harvest_histories_with_a_queue_table", Min: 3}}
}

func judgeNode(c *core.Ctx, sp nodespec.Spec, nr nodeRes) {
	kind := "internal"
	if sp.Leaf {
		kind = "leaf"
	}
	if nr.BuildErr != "" {
		c.Inconclusive("build", "node could not be built: "+nr.BuildErr)
		return
	}
	c.Count("nodes", 1)
	c.Count("nodes_"+kind, 1)
	b := nr.Before
	c.Eval(fmt.Sprint(sp), len(b.Keys) > 0)
	if sp.Leaf {
		fl := 0
		if b.HasL {
			fl |= 1
		}
		if b.HasR {
			fl |= 2
		}
		c.Count(fmt.Sprintf("flags_%d", fl), 1)
		c.Count(fmt.Sprintf("leaf_cells_%d", len(b.Keys)), 1)
		all400 := len(b.Keys) == 9
		for _, l := range b.ValLens {
			if l != 400 {
				all400 = false
			}
			c.Max("max_value_len", int64(l))
		}
		if all400 {
			c.Count("leaf_9_cells_400_bytes", 1)
		}
	} else if len(b.Keys) == 290 {
		c.Count("internal_290_cells", 1)
	}
	for _, a := range sp.Acts {
		if a.A == "split" {
			c.Count("split_halves", 1)
		}
	}
	want := logical(b)
	if nr.EncErr != "" {
		c.Violation("C12:"+kind+":encode-failed", nr.EncErr, sp)
		return
	}
	if nr.EncLen != 4096 {
		c.Violation("C12:"+kind+":encoding-not-one-page", fmt.Sprintf("encoded to %d bytes", nr.EncLen), sp)
		return
	}
	if nr.DecErr != "" {
		c.Violation("C12:"+kind+":decode-failed", nr.DecErr, sp)
		return
	}
	if got := logical(nr.Decoded); got != want {
		c.Violation("C12:"+kind+":decode-differs", fmt.Sprintf("before: %s\nafter:  %s", clip(want, 500), clip(got, 500)), sp)
		return
	}
	if nr.ReencErr != "" || nr.ReencLen != 4096 {
		c.Violation("C12:"+kind+":re-encode-failed", fmt.Sprintf("%s len=%d", nr.ReencErr, nr.ReencLen), sp)
		return
	}
	if got := logical(nr.Reencoded); got != want {
		c.Violation("C12:"+kind+":second-round-trip-differs", fmt.Sprintf("before: %s\nafter:  %s", clip(want, 500), clip(got, 500)), sp)
		return
	}
	if nr.StoreErr != "" {
		c.Violation("C12:"+kind+":store-round-trip-failed", nr.StoreErr, sp)
		return
	}
	if nr.Stored != nil {
		c.Count("store_round_trips", 1)
		if got := logical(nr.Stored); got != want {
			c.Violation("C12:"+kind+":store-round-trip-differs", fmt.Sprintf("before: %s\nafter:  %s", clip(want, 500), clip(got, 500)), sp)
		}
	}
}
