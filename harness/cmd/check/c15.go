package main

import (
	"encoding/json"
	"fmt"
	"sync/atomic"
	"time"

	"verif/harness/internal/core"
	"verif/harness/internal/lruseq"
	"verif/harness/proto"
)

func init() {
	checks["C15"] = checkC15
}

// refLRU is the reference model: a list, most recently used first.
type refEntry struct {
	key, id uint64
	dirty   bool
}

type refLRU struct {
	cap   int
	e     []refEntry
	stats *lruStats
}

type lruStats struct{ evictions, refusals, dirtySkips, hits, misses int64 }

func (m *refLRU) find(key uint64) int {
	for i := range m.e {
		if m.e[i].key == key {
			return i
		}
	}
	return -1
}

func (m *refLRU) front(i int) {
	x := m.e[i]
	copy(m.e[1:i+1], m.e[:i])
	m.e[0] = x
}

func (m *refLRU) Set(key, id uint64, dirty bool) bool {
	if i := m.find(key); i >= 0 {
		m.e[i].id, m.e[i].dirty = id, dirty
		m.front(i)
		return true
	}
	if len(m.e) == m.cap {
		v := -1
		for i := len(m.e) - 1; i >= 0; i-- {
			if !m.e[i].dirty {
				v = i
				break
			}
			m.stats.dirtySkips++
		}
		if v < 0 {
			m.stats.refusals++
			return false
		}
		m.stats.evictions++
		m.e = append(m.e[:v], m.e[v+1:]...)
	}
	m.e = append([]refEntry{{key, id, dirty}}, m.e...)
	return true
}

func (m *refLRU) Get(key uint64) (uint64, bool, bool) {
	if i := m.find(key); i >= 0 {
		m.stats.hits++
		m.front(i)
		return m.e[0].id, m.e[0].dirty, true
	}
	m.stats.misses++
	return 0, false, false
}

func (m *refLRU) SetDirty(key uint64, d bool) bool {
	if i := m.find(key); i >= 0 {
		m.e[i].dirty = d
		return true
	}
	return false
}

// Restore: the resident entry becomes the most recently used one; nothing
// else changes. A key that is not resident is left alone.
func (m *refLRU) Restore(key uint64) bool {
	if i := m.find(key); i >= 0 {
		m.front(i)
		return true
	}
	return false
}

func (m *refLRU) State() (keys, ids []uint64, dirty []bool, ml, ll int) {
	for _, x := range m.e {
		keys = append(keys, x.key)
		ids = append(ids, x.id)
		dirty = append(dirty, x.dirty)
	}
	return keys, ids, dirty, len(m.e), len(m.e)
}

func checkC15(c *core.Ctx) []core.Floor {
	c.Rule = "operation sequences over {store clean page, store dirty page, lookup, mark dirty, mark clean, store the resident page object itself again (as a flush does)} x keys, run on the real LRUCache holding real nodes and on a 50-line reference model; after EVERY step the return value and the resident entries (recency order, stored page identity, dirty flags, map and list sizes) must be equal. Exhaustive: all sequences of the stated depth over 3-4 keys at capacities 0-3; random: long sequences at capacities 4-64 with dirty ratios 0-100%, and sequences of 1500-4000 steps on a cache of 4096 / 4097 / 5000 / 8192 / 10000 (the default) pages that was filled first (state compared every 250 steps, return values at every step); sequences at capacities 33-2000 on a cache filled with 90-100% dirty pages, so that the oldest clean page lies behind dozens of dirty ones. Distinct = sequence x capacity; non-trivial = the sequence caused an eviction or a refusal in the model."
	c.Assume = []string{"marking a resident page dirty/clean happens through the node pointer, as the B+ tree code does (no recency change)"}
	drv := mustDriver(c, false)
	type batch struct {
		sp lruseq.Spec
	}
	var batches []lruseq.Spec
	exh := []struct{ depth, keys int }{{4, 4}, {5, 3}}
	nRandom := 2000
	if !core.Quick(c) {
		exh = []struct{ depth, keys int }{{5, 4}, {6, 3}, {7, 2}}
		nRandom = 100000
	}
	for _, e := range exh {
		total := lruseq.Count(e.depth, e.keys)
		chunk := total/uint64(c.Workers*4) + 1
		for capn := 0; capn <= 3; capn++ { // capacity 0: holds nothing, refuses everything
			for lo := uint64(0); lo < total; lo += chunk {
				hi := lo + chunk
				if hi > total {
					hi = total
				}
				batches = append(batches, lruseq.Spec{Cap: capn, Keys: e.keys, Depth: e.depth, Lo: lo, Hi: hi})
			}
		}
	}
	r := core.NewRand(core.SubSeed(c.Seed, "C15", 0))
	var randomSpecs []lruseq.Spec
	for i := 0; i < nRandom; i++ {
		capn := []int{4, 5, 8, 16, 32, 64}[r.Intn(6)]
		randomSpecs = append(randomSpecs, lruseq.Spec{Cap: capn, Keys: capn + r.Range(1, capn), Steps: r.Range(200, 2000), Seed: r.U64(), Dirty: []int{0, 10, 30, 50, 80, 100}[r.Intn(6)]})
	}
	// capacities in the thousands, the default of 10000 pages among them: the
	// cache is filled first, then a random sequence follows; the resident
	// state is compared every 250 steps, return values at every step
	nLarge := 12
	if !core.Quick(c) {
		nLarge = 300
	}
	var largeSpecs []lruseq.Spec
	for i := 0; i < nLarge; i++ {
		capn := []int{10000, 4096, 4097, 10000, 8192, 5000}[i%6]
		largeSpecs = append(largeSpecs, lruseq.Spec{Cap: capn, Keys: capn + r.Range(100, capn/2), Prefill: capn - r.Intn(3), Steps: r.Range(1500, 4000), Every: 250, Seed: r.U64(), Dirty: []int{0, 10, 30, 50, 90}[r.Intn(5)]})
	}
	// mid-range capacities with long runs of dirty pages at the cold end: the
	// cache is filled with (almost) only dirty pages, later steps clean a few
	// of them, so that the oldest clean page lies behind dozens of dirty ones
	nMid := 60
	if !core.Quick(c) {
		nMid = 3000
	}
	for i := 0; i < nMid; i++ {
		capn := []int{33, 34, 35, 40, 48, 64, 65, 100, 200, 500, 1000, 2000}[i%12]
		every := 1
		if capn > 100 {
			every = 25
		}
		largeSpecs = append(largeSpecs, lruseq.Spec{Cap: capn, Keys: capn + r.Range(5, capn), Prefill: capn, Steps: r.Range(400, 2000), Every: every, Seed: r.U64(), Dirty: []int{100, 97, 90}[r.Intn(3)]})
	}
	// long runs of stores of pages that were never resident, with no lookup in
	// between (a table scan over cold pages), on a full cache
	nScan := 8
	if !core.Quick(c) {
		nScan = 240
	}
	for i := 0; i < nScan; i++ {
		capn := []int{300, 1000, 2100, 3000, 5000, 10000, 64, 4096}[i%8]
		largeSpecs = append(largeSpecs, lruseq.Spec{Cap: capn, Keys: capn + r.Range(10, 200), Prefill: capn, Steps: r.Range(50, 300), Every: 200, Seed: r.U64(), Dirty: []int{0, 10, 40}[r.Intn(3)], Scan: r.Range(2100, 9000)})
	}
	// random specs are grouped so that one driver process runs many
	type job struct {
		specs []lruseq.Spec
	}
	var jobs []job
	for _, b := range batches {
		jobs = append(jobs, job{specs: []lruseq.Spec{b}})
	}
	for _, sp := range largeSpecs {
		jobs = append(jobs, job{specs: []lruseq.Spec{sp}})
	}
	for i := 0; i < len(randomSpecs); i += 100 {
		j := i + 100
		if j > len(randomSpecs) {
			j = len(randomSpecs)
		}
		jobs = append(jobs, job{specs: randomSpecs[i:j]})
	}
	core.ParallelFor(len(jobs), c.Workers, func(ji int) {
		dir := c.CaseDir("c15")
		defer removeAll(dir)
		var s script
		for _, sp := range jobs[ji].specs {
			b, _ := json.Marshal(sp)
			s.add(proto.Op{K: "lru", Raw: b})
		}
		out := core.RunScript(drv, dir, s.ops, 600*time.Second)
		if out.Died {
			if out.TimedOut {
				c.Inconclusive("watchdog", "lru batch timed out")
			} else {
				c.Violation("C15:process-died", core.FatalTail(out.Stderr), jobs[ji].specs[0])
			}
			return
		}
		for k, sp := range jobs[ji].specs {
			res := out.Res[k]
			if res.Failed() {
				c.Violation("C15:panic:"+res.Frame, "cache operation panicked: "+res.Panic+res.Err, sp)
				continue
			}
			var got struct {
				Hashes []uint64 `json:"hashes"`
			}
			json.Unmarshal(res.Raw, &got)
			idx := 0
			var st lruStats
			sp.Sequences(func(n uint64, steps []lruseq.Step) {
				before := st
				ref := lruseq.RunEvery(&refLRU{cap: sp.Cap, stats: &st}, steps, sp.Every)
				nontrivial := st.evictions > before.evictions || st.refusals > before.refusals
				c.Eval(fmt.Sprintf("%d/%d/%d/%d/%d", sp.Cap, sp.Keys, sp.Depth, n, sp.Seed), nontrivial)
				if idx >= len(got.Hashes) {
					c.Inconclusive("harness", "driver returned too few hashes")
					return
				}
				if lruseq.Hash(ref) != got.Hashes[idx] {
					// each report re-runs the sequence in a process of its own:
					// the first 24 disagreements are reported in full, the rest
					// are counted (the run fails either way)
					if atomic.AddInt64(&c15Reports, 1) <= 24 {
						reportLRU(c, drv, sp, n, steps, ref)
					} else {
						c.Count("disagreeing_sequences_not_re_run", 1)
					}
				}
				idx++
			})
			c.Count("steps", int64(idx)*int64(max(sp.Depth, sp.Steps)))
			c.Count("evictions_in_model", st.evictions)
			c.Count("refusals_in_model", st.refusals)
			c.Count("dirty_entries_skipped_by_eviction", st.dirtySkips)
			c.Count("lookup_hits", st.hits)
			c.Count("lookup_misses", st.misses)
			if sp.Depth > 0 {
				c.Count(fmt.Sprintf("exhaustive_depth%d_keys%d_cap%d_sequences", sp.Depth, sp.Keys, sp.Cap), int64(sp.Hi-sp.Lo))
			} else if sp.Scan > 0 {
				c.Count("sequences_with_thousands_of_cold_stores_in_a_row", 1)
			} else if sp.Prefill > 0 && sp.Cap < 4096 {
				c.Count("sequences_on_a_cache_filled_with_dirty_pages_capacity_33_to_2000", 1)
			} else if sp.Prefill > 0 {
				c.Count("sequences_on_a_filled_cache_of_thousands_of_pages", 1)
				if sp.Cap == 10000 {
					c.Count("sequences_at_the_default_capacity_of_10000", 1)
				}
			} else {
				c.Count("random_sequences", 1)
			}
		}
	})
	for _, e := range exh {
		c.Extra(fmt.Sprintf("exhaustive_scope_depth%d_keys%d", e.depth, e.keys), fmt.Sprintf("all %d sequences x capacities 0..3", lruseq.Count(e.depth, e.keys)))
	}
	c.Sample(3, map[string]interface{}{"exhaustive_example": fmt.Sprint(lruseq.Enum(12345, exh[0].depth, exh[0].keys)), "random_example_prefix": fmt.Sprint(lruseq.Random(7, 12, 6, 50))})
	return []core.Floor{{Key: "evictions_in_model", Min: 1000}, {Key: "refusals_in_model", Min: 100}, {Key: "dirty_entries_skipped_by_eviction", Min: 100}, {Key: "random_sequences", Min: int64(nRandom)}, {Key: "sequences_at_the_default_capacity_of_10000", Min: 4}, {Key: "sequences_with_thousands_of_cold_stores_in_a_row", Min: 6}}
}

var c15Reports int64

// reportLRU re-runs one disagreeing sequence with the full trace and reports
// the first differing step.
func reportLRU(c *core.Ctx, drv string, sp lruseq.Spec, n uint64, steps []lruseq.Step, ref []string) {
	one := sp
	one.Full = true
	if sp.Depth > 0 {
		one.Lo, one.Hi = n, n+1
	}
	b, _ := json.Marshal(one)
	dir := c.CaseDir("c15r")
	defer removeAll(dir)
	out := core.RunScript(drv, dir, []proto.Op{{K: "lru", Raw: b}}, 60*time.Second)
	var got struct {
		Trace []string `json:"trace"`
	}
	if !out.Died && len(out.Res) == 1 {
		json.Unmarshal(out.Res[0].Raw, &got)
	}
	at := -1
	for i := range ref {
		if i >= len(got.Trace) || got.Trace[i] != ref[i] {
			at = i
			break
		}
	}
	if at < 0 {
		c.Inconclusive("not-reproduced", "trace hash differed but the full trace agrees")
		return
	}
	g := "<none>"
	if at < len(got.Trace) {
		g = got.Trace[at]
	}
	lo := at - 8
	if lo < 0 {
		lo = 0
	}
	var stepStr []string
	for i := lo; i <= at; i++ {
		stepStr = append(stepStr, steps[i].String())
	}
	// classify
	sig := "C15:state-differs"
	var rr, gr string
	fmt.Sscanf(ref[at], "ret=%s", &rr)
	fmt.Sscanf(g, "ret=%s", &gr)
	if rr != gr {
		sig = "C15:return-value-differs:" + steps[at].String()[:len(steps[at].String())-3]
	}
	c.Violation(sig, fmt.Sprintf("capacity %d: at step %d (%s) the cache shows %q, the model %q", sp.Cap, at, steps[at], g, ref[at]),
		map[string]interface{}{"spec": one, "steps_up_to_difference": stepStr, "first_step_shown": lo, "cache": g, "model": ref[at]})
}
