package main

import (
	"fmt"
	"math"
	"path/filepath"
	"strings"
	"sync/atomic"
	"time"

	"verif/harness/internal/core"
	"verif/harness/internal/model"
	"verif/harness/proto"
)

func init() {
	checks["C08"] = checkC08
}

type attempt struct {
	st      *proto.Stmt
	text    bool
	feature string
}

var c08Types = []string{"int", "bigint", "varchar", "boolean"}

func schemaFor(i int, r *core.Rand) []model.Col {
	// i < 84: exhaustive over 1..3 columns; beyond: random 4-5 columns
	var ts []string
	switch {
	case i < 4:
		ts = []string{c08Types[i]}
	case i < 20:
		j := i - 4
		ts = []string{c08Types[j/4], c08Types[j%4]}
	case i < 84:
		j := i - 20
		ts = []string{c08Types[j/16], c08Types[(j/4)%4], c08Types[j%4]}
	default:
		n := r.Range(4, 5)
		for k := 0; k < n; k++ {
			ts = append(ts, c08Types[r.Intn(4)])
		}
	}
	var cols []model.Col
	for k, t := range ts {
		c := model.Col{Name: fmt.Sprintf("c%d", k), Type: t}
		if t == "varchar" {
			c.Len = 255
		}
		cols = append(cols, c)
	}
	if r.Chance(1, 4) {
		// column names are case-sensitive: a later column of the same type as
		// an earlier one is named like it in capitals (c0 / C0); statements
		// that name columns (column lists, SET) then have to hit the right one
		for k := 1; k < len(cols); k++ {
			for j := 0; j < k; j++ {
				if cols[j].Type == cols[k].Type && cols[j].Name == strings.ToLower(cols[j].Name) {
					cols[k].Name = strings.ToUpper(cols[j].Name)
					return cols
				}
			}
		}
	}
	return cols
}

func baseVal(r *core.Rand, c model.Col) proto.Val {
	switch c.Type {
	case "int":
		return proto.Int(int64(r.Intn(1000)))
	case "bigint":
		return proto.Int(int64(r.Intn(1000000)))
	case "boolean":
		return proto.Bool(r.Bool())
	}
	return proto.Str(longStr(r, r.Intn(6)))
}

var hazardStrings = []string{"", " ", "'", "\"", "\\", ";", "\n", "\r\n", "\t", "a'b", "a\"b", "it''s", "\\n", "a;b", "--", "/*x*/", "\x00", "a\x00b", "\xff", "\xc3", "\xc3\x28", "\xe2\x82", "é", "日本語", "𝄞", " lead", "trail ", "NULL", "true", "0", "select * from t", "`", "%", "_", "it\\'s", "x\\'", "x\\'\\'", "a\\\\b", "\\\\", "say \\\"hi\\\"", "\\'", "\"json\"", "\"", "end\""}

func specialVals(r *core.Rand, c model.Col, caseIdx int) []proto.Val {
	switch c.Type {
	case "int":
		return []proto.Val{proto.Int(math.MinInt32), proto.Int(-1), proto.Int(0), proto.Int(1), proto.Int(math.MaxInt32), proto.Int(math.MaxInt32 + 1), proto.Int(math.MinInt32 - 1), proto.Int(math.MaxInt64), proto.Int(math.MinInt64)}
	case "bigint":
		return []proto.Val{proto.Int(math.MinInt64), proto.Int(math.MaxInt64), proto.Int(-1), proto.Int(0), proto.Int(1), proto.Int(math.MaxInt32 + 1), proto.Int(math.MinInt32 - 1)}
	case "boolean":
		return []proto.Val{proto.Bool(true), proto.Bool(false)}
	}
	var out []proto.Val
	// every single byte value is covered across cases: 8 per case
	for k := 0; k < 32; k++ {
		out = append(out, proto.Str(string([]byte{byte((caseIdx*32 + k) % 256)})))
	}
	for k := 0; k < 6; k++ {
		out = append(out, proto.Str(hazardStrings[(caseIdx*6+k)%len(hazardStrings)]))
	}
	out = append(out, proto.Str(longStr(r, r.Range(100, 300))))
	return out
}

func checkC08(c *core.Ctx) []core.Floor {
	c.Rule = "schemas: every order of 1-3 columns over the four types (84) plus random 4-5 column schemas; per schema a list of single-row INSERTs each carrying one special feature (type boundary values, out-of-range INT, NULL in each position / all NULL, every single byte 0x00-0xFF and hazard strings, rows exactly at 400 bytes and at 401, wrong value type incl. wrong Go dynamic types) and UPDATEs (boundary values, growing a row to exactly 400 / 401; in every second case the session is closed and reopened twice among the UPDATEs, so that rows are changed on pages read back from the data file); values SQL text can express go through Session.ExecQuery as text in half of the cases, everything also as direct values. The model predicts acceptance; accepted rows are read back exactly at four stages: immediately, after flush + reopen with a 16-page cache, after close + new process, after crash image + recovery. Distinct = (schema, feature, text/direct); non-trivial = the attempt carried a boundary / hazard feature (not a plain row)."
	c.Assume = []string{"SQL text cannot express negative integers, NULL, or strings containing a single quote, backslash or newline: those go through direct values only"}
	drv := mustDriver(c, false)
	n := 100
	if !core.Quick(c) {
		n = 3000
	}
	core.ParallelFor(n, c.Workers, func(i int) { runC08(c, drv, i) })
	return []core.Floor{
		{Key: "rows_accepted", Min: 500}, {Key: "rows_refused", Min: 100}, {Key: "row_at_400_insert", Min: 5}, {Key: "row_at_401_insert", Min: 5},
		{Key: "row_at_400_update", Min: 5}, {Key: "row_at_401_update", Min: 5}, {Key: "stage_reload_small_cache", Min: 20}, {Key: "stage_new_process", Min: 20}, {Key: "stage_crash_recovery", Min: 20},
		{Key: "single_bytes_covered", Min: 256}, {Key: "via_text", Min: 100}, {Key: "via_direct", Min: 100},
		{Key: "feature_int_max32_plus1", Min: 1}, {Key: "feature_int_min32_minus1", Min: 1}, {Key: "feature_all_null", Min: 1}, {Key: "feature_wrong_type", Min: 10}, {Key: "feature_wrong_go_type", Min: 10}, {Key: "feature_long_text_multibyte", Min: 20},
	}
}

var bytesSeen [256]int32 // atomically set

func runC08(c *core.Ctx, drv string, idx int) {
	dir := c.CaseDir("c08")
	defer removeAll(dir)
	r := core.NewRand(core.SubSeed(c.Seed, "C08", idx))
	cols := schemaFor(idx, r)
	textCase := idx%2 == 0
	var defs []proto.ColDef
	for _, cl := range cols {
		defs = append(defs, proto.ColDef{Name: cl.Name, Type: cl.Type, Len: cl.Len})
	}
	mk := func(table string) *proto.Stmt { return &proto.Stmt{Kind: "create", Table: table, Defs: defs} }
	base := func() []proto.Val {
		v := make([]proto.Val, len(cols))
		for i, cl := range cols {
			v[i] = baseVal(r, cl)
		}
		return v
	}
	var atts []attempt
	ins := func(vals []proto.Val, feature string, raw []string) {
		st := &proto.Stmt{Kind: "insert", Table: "t", Rows: [][]proto.Val{vals}, RawKinds: raw}
		if r.Bool() {
			for _, cl := range cols {
				st.Cols = append(st.Cols, cl.Name)
			}
		}
		atts = append(atts, attempt{st: st, feature: feature, text: textCase && model.StmtTextOK(st)})
	}
	ins(base(), "plain", nil)
	vi := -1
	for i, cl := range cols {
		if cl.Type == "varchar" {
			vi = i
		}
	}
	for i, cl := range cols {
		for _, sv := range specialVals(r, cl, idx) {
			v := base()
			v[i] = sv
			f := "value_" + cl.Type
			if cl.Type == "int" && sv.I == math.MaxInt32+1 {
				f = "int_max32_plus1"
			}
			if cl.Type == "int" && sv.I == math.MinInt32-1 {
				f = "int_min32_minus1"
			}
			ins(v, f, nil)
		}
		v := base()
		v[i] = proto.Null()
		ins(v, "null", nil)
		// wrong SQL type
		v = base()
		v[i] = wrongTypeVal(r, cl)
		ins(v, "wrong_type", nil)
		// wrong Go dynamic type (direct values only)
		v = base()
		raw := make([]string, len(cols))
		switch cl.Type {
		case "int", "bigint":
			raw[i] = []string{"int", "int32", "uint64", "float"}[r.Intn(4)]
			v[i] = proto.Int(5)
		case "varchar":
			raw[i] = "bytes"
			v[i] = proto.Str("abc")
		default:
			raw[i] = "int"
			v[i] = proto.Int(1)
		}
		ins(v, "wrong_go_type", raw)
	}
	alln := make([]proto.Val, len(cols))
	for i := range alln {
		alln[i] = proto.Null()
	}
	ins(alln, "all_null", nil)
	if vi >= 0 {
		// a statement text of several kilobytes whose string literals are made
		// of multi-byte characters (and truncated sequences), shifted by 0-3
		// bytes from row to row: wherever the front end cuts its input into
		// chunks, some character straddles the cut
		pieces := []string{"€", "é", "日", "𝄞", "\xe2\x82", "\xc3", "ß", "\xf0\x9d\x84"}
		st := &proto.Stmt{Kind: "insert", Table: "t"}
		for k, nrows := 0, r.Range(8, 14); k < nrows; k++ {
			v := base()
			b := []byte("abc"[:k%4])
			for want := r.Range(60, 110); len(b) < want; {
				b = append(b, pieces[r.Intn(len(pieces))]...)
			}
			v[vi] = proto.Str(string(b))
			st.Rows = append(st.Rows, v)
		}
		atts = append(atts, attempt{st: st, feature: "long_text_multibyte", text: textCase && model.StmtTextOK(st)})
		// rows that are equal in every column except for the blanks inside
		// the string: statement texts that differ in nothing else
		twin := base()
		for _, w := range []string{"a b", "a  b", "a\tb", " a b", "a b ", "ab"} {
			v := append([]proto.Val(nil), twin...)
			v[vi] = proto.Str(w)
			st := &proto.Stmt{Kind: "insert", Table: "t", Rows: [][]proto.Val{v}}
			atts = append(atts, attempt{st: st, feature: "whitespace_twins", text: textCase && model.StmtTextOK(st)})
		}
	}
	if vi >= 0 {
		for _, over := range []int{0, 1, -1, 37} {
			v := base()
			v[vi] = proto.Str("")
			b := model.EncodedSize(cols, v)
			v[vi] = proto.Str(longStr(r, model.MaxRowSize-b+over))
			ins(v, fmt.Sprintf("row_at_%d_insert", model.MaxRowSize+over), nil)
		}
	}
	// updates on a second table with two rows
	var upds []attempt
	u0, u1 := base(), base()
	upd := func(set []proto.SetItem, feature string) {
		st := &proto.Stmt{Kind: "update", Table: "u", Sets: set}
		upds = append(upds, attempt{st: st, feature: feature, text: textCase && model.StmtTextOK(st)})
	}
	for _, cl := range cols {
		sv := specialVals(r, cl, idx+1)
		for k := 0; k < 3; k++ {
			upd([]proto.SetItem{{Col: cl.Name, Val: sv[r.Intn(len(sv))]}}, "update_value_"+cl.Type)
		}
		upd([]proto.SetItem{{Col: cl.Name, Val: proto.Null()}}, "update_null")
		upd([]proto.SetItem{{Col: cl.Name, Val: wrongTypeVal(r, cl)}}, "wrong_type")
		upd([]proto.SetItem{{Col: cl.Name, Val: baseVal(r, cl)}}, "update_plain")
	}

	var s script
	type meta struct {
		kind string
		att  *attempt
	}
	var mt []meta
	add := func(op proto.Op, m meta) int { mt = append(mt, m); return s.add(op) }
	var seq []*attempt // every attempt in execution order
	addAtt := func(a *attempt) {
		seq = append(seq, a)
		if a.text {
			// integer literals are written with leading zeros now and then
			add(proto.Op{K: "sql", SQL: proto.Text(model.RenderStmt(a.st, model.Style{ZeroPad: r.Chance(1, 4), R: r}))}, meta{kind: "att", att: a})
		} else {
			add(proto.Op{K: "stmt", Stmt: a.st}, meta{kind: "att", att: a})
		}
		add(proto.Op{K: "dump"}, meta{kind: "dump", att: a})
	}
	add(proto.Op{K: "cfg", N: 1}, meta{kind: "other"})
	add(proto.Op{K: "init"}, meta{kind: "other"})
	add(proto.Op{K: "sql", SQL: "CREATE DATABASE d1"}, meta{kind: "other"})
	add(proto.Op{K: "sql", SQL: "USE d1"}, meta{kind: "other"})
	add(proto.Op{K: "stmt", Stmt: mk("t")}, meta{kind: "setup"})
	add(proto.Op{K: "stmt", Stmt: mk("u")}, meta{kind: "setup"})
	add(proto.Op{K: "stmt", Stmt: &proto.Stmt{Kind: "insert", Table: "u", Rows: [][]proto.Val{u0, u1}}}, meta{kind: "setup"})
	for i := range atts {
		addAtt(&atts[i])
	}
	// selecting the current database again, spelled in another letter case,
	// must not disturb anything (names are case-insensitive on disk)
	// page flushes between statements (what the timer does): the values must
	// survive the crash image at the end whichever of them were already in the
	// data file and which only in the log
	flushEvery := []int{0, 1, 3, 7}[idx%4]
	reloads := 0
	extra := make([]attempt, 0, len(upds)) // capacity fixed: pointers into it are kept
	if flushEvery > 0 {
		add(proto.Op{K: "flush"}, meta{kind: "other"})
	}
	for i := range upds {
		if i == len(upds)/2 {
			add(proto.Op{K: "sql", SQL: "USE D1"}, meta{kind: "other"})
		}
		if (i == len(upds)/3 || i == 2*len(upds)/3) && idx%2 == 0 {
			// the session ends and another begins: the rows the next UPDATEs
			// change sit on pages read back from the data file, not on the
			// pages the INSERTs built in memory
			add(proto.Op{K: "flush"}, meta{kind: "other"})
			add(proto.Op{K: "close"}, meta{kind: "other"})
			add(proto.Op{K: "session"}, meta{kind: "other"})
			add(proto.Op{K: "sql", SQL: "USE d1"}, meta{kind: "other"})
			reloads++
		}
		if i%5 == 2 {
			// a fresh row in the table about to be updated, already in the data
			// file when the UPDATE comes: insert, flush, update with nothing in
			// between
			extra = append(extra, attempt{st: &proto.Stmt{Kind: "insert", Table: "u", Rows: [][]proto.Val{base()}}, feature: "plain"})
			addAtt(&extra[len(extra)-1])
			add(proto.Op{K: "flush"}, meta{kind: "other"})
		}
		addAtt(&upds[i])
		if flushEvery > 0 && i%flushEvery == 0 {
			add(proto.Op{K: "flush"}, meta{kind: "other"})
		}
	}
	// placeholder for the size-limit updates: generated from the model state
	// below, so they are appended after a first pass over the model
	m := model.NewDB()
	for _, st := range []*proto.Stmt{mk("t"), mk("u"), {Kind: "insert", Table: "u", Rows: [][]proto.Val{u0, u1}}} {
		m.Apply(st)
	}
	pm := m.Clone()
	for _, a := range seq {
		if len(a.st.RawKinds) == 0 {
			pm.Apply(a.st)
		}
	}
	var limitUpds []attempt
	if vi >= 0 {
		ut := pm.Table("u")
		mx := 0
		for _, row := range ut.Rows {
			v := append([]proto.Val(nil), row.Vals...)
			v[vi] = proto.Str("")
			if b := model.EncodedSize(cols, v); b > mx {
				mx = b
			}
		}
		for _, over := range []int{1, 0, 1} {
			st := &proto.Stmt{Kind: "update", Table: "u", Sets: []proto.SetItem{{Col: cols[vi].Name, Val: proto.Str(longStr(r, model.MaxRowSize-mx+over))}}}
			limitUpds = append(limitUpds, attempt{st: st, feature: fmt.Sprintf("row_at_%d_update", model.MaxRowSize+over), text: textCase})
		}
		for i := range limitUpds {
			addAtt(&limitUpds[i])
		}
	}
	add(proto.Op{K: "image", Dir: filepath.Join(dir, "img", "data")}, meta{kind: "other"})
	add(proto.Op{K: "flush"}, meta{kind: "other"})
	add(proto.Op{K: "close"}, meta{kind: "other"})
	add(proto.Op{K: "cfg", N: 1, M: 16}, meta{kind: "other"})
	add(proto.Op{K: "session"}, meta{kind: "other"})
	add(proto.Op{K: "sql", SQL: "USE d1"}, meta{kind: "other"})
	add(proto.Op{K: "dump"}, meta{kind: "reload"})
	add(proto.Op{K: "close"}, meta{kind: "other"})
	out := core.RunScript(drv, dir, s.ops, 120*time.Second)
	replay := func(a *attempt) interface{} {
		var sch []string
		for _, cl := range cols {
			sch = append(sch, cl.Name+" "+cl.Type)
		}
		rp := map[string]interface{}{"case": idx, "schema": strings.Join(sch, ", "), "text_case": textCase}
		if a != nil {
			rp["statement"] = clip(model.RenderStmt(a.st, model.Plain), 1200)
			rp["statement_values"] = a.st
			rp["as_sql_text"] = a.text
			rp["feature"] = a.feature
		}
		return rp
	}
	grave := model.Graveyard{}
	ok := true
	for k := range out.Res {
		res := &out.Res[k]
		x := mt[k]
		if res.Panic != "" {
			c.Violation("C08:panic:"+res.Frame, fmt.Sprintf("%s panicked: %s", x.kind, res.Panic), replay(x.att))
			ok = false
			break
		}
		switch x.kind {
		case "setup", "other":
			if res.Err != "" {
				c.Inconclusive("setup", s.ops[k].K+" failed: "+res.Err)
				ok = false
			}
		case "att":
			a := x.att
			var fail string
			var err error
			if len(a.st.RawKinds) > 0 {
				fail = model.FailType // a Go value of the wrong dynamic type
			} else {
				fail, _, _, err = m.Apply(a.st)
			}
			if err != nil {
				c.Inconclusive("model", err.Error())
				ok = false
				break
			}
			c.Count("feature_"+a.feature, 1)
			if a.text {
				c.Count("via_text", 1)
			} else {
				c.Count("via_direct", 1)
			}
			switch {
			case fail == "" && res.Err != "":
				c.Violation("C08:valid-value-refused:"+a.feature+":"+errClass(res.Err), fmt.Sprintf("statement the property requires to be accepted returned: %s", res.Err), replay(a))
				ok = false
			case fail != "" && res.Err == "":
				c.Violation("C08:invalid-value-accepted:"+fail, fmt.Sprintf("statement with an invalid value (%s, %s) was accepted", fail, a.feature), replay(a))
				ok = false
			case fail == "":
				c.Count("rows_accepted", 1)
				if strings.HasPrefix(a.feature, "row_at_") {
					c.Count(a.feature, 1)
				}
				for _, row := range a.st.Rows {
					for _, v := range row {
						if v.K == 's' && len(v.S) == 1 {
							atomic.StoreInt32(&bytesSeen[v.S[0]], 1)
						}
					}
				}
			default:
				c.Count("rows_refused", 1)
				if strings.HasPrefix(a.feature, "row_at_") {
					c.Count(a.feature, 1)
				}
			}
			c.Eval(fmt.Sprintf("%d/%s/%v/%d", idx, a.feature, a.text, k), a.feature != "plain" && a.feature != "update_plain")
		case "dump":
			if df := m.CheckDump("C08:immediately", res.Tables, grave, true); df != nil {
				c.Violation(df.Sig, fmt.Sprintf("after %s: %s", x.att.feature, df.What), replay(x.att))
				ok = false
			}
		case "reload":
			if df := m.CheckDump("C08:after-flush-and-reload-small-cache", res.Tables, grave, true); df != nil {
				c.Violation(df.Sig, df.What, replay(nil))
				ok = false
			} else {
				c.Count("stage_reload_small_cache", 1)
				c.Count("sessions_ended_and_reopened_between_updates", int64(reloads))
			}
		}
		if !ok {
			break
		}
	}
	if ok && out.Died {
		if out.TimedOut {
			c.Inconclusive("watchdog", "C08 case timed out")
		} else {
			c.Violation("C08:process-died", core.FatalTail(out.Stderr), replay(mt[out.LastBeg].att))
		}
		ok = false
	}
	if !ok {
		return
	}
	// new process after clean shutdown
	var s2 script
	s2.cfg(true, 16)
	s2.k("init")
	s2.sql("USE d1")
	d2 := s2.k("dump")
	s2.k("close")
	out2 := core.RunScript(drv, dir, s2.ops, 60*time.Second)
	if out2.Died || out2.Res[d2].Failed() {
		c.Violation("C08:after-restart:unreadable", fmt.Sprintf("after clean restart the database cannot be read: %v %s", out2.Died, core.FatalTail(out2.Stderr)), replay(nil))
		return
	}
	if df := m.CheckDump("C08:after-restart", out2.Res[d2].Tables, grave, false); df != nil {
		c.Violation(df.Sig, df.What, replay(nil))
		return
	}
	c.Count("stage_new_process", 1)
	j := &crashJob{dir: filepath.Join(dir, "img"), cands: []*model.DB{m}, label: "c08", replay: replay(nil)}
	verifyCrashJobsPrefixed(c, "C08", drv, dir, []*crashJob{j}, func(j *crashJob, sig string) string { return sig })
	if !j.failed {
		c.Count("stage_crash_recovery", 1)
	}
	n := int64(0)
	for i := range bytesSeen {
		n += int64(atomic.LoadInt32(&bytesSeen[i]))
	}
	c.Max("single_bytes_covered", n)
	c.Sample(3, map[string]interface{}{"case": idx, "schema": replay(nil), "attempts": len(atts) + len(upds) + len(limitUpds), "first_attempts": func() []string {
		var o []string
		for i := 0; i < 5 && i < len(atts); i++ {
			o = append(o, atts[i].feature+": "+clip(model.RenderStmt(atts[i].st, model.Plain), 120))
		}
		return o
	}()})
}
