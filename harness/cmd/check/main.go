// check is the orchestrator: generators, reference models, oracles, evidence.
// It never links mkdb; it drives cmd/vdriver child processes built from
// /repo's current working tree.
package main

import (
	"fmt"
	"os"
	"os/signal"
	"sort"
	"syscall"

	"verif/harness/internal/core"
	"verif/harness/proto"
)

type checkFn func(c *core.Ctx) []core.Floor

var checks = map[string]checkFn{}

func main() {
	if len(os.Args) < 2 {
		fmt.Println("usage: check <property> [quick|thorough]")
		var ids []string
		for k := range checks {
			ids = append(ids, k)
		}
		sort.Strings(ids)
		fmt.Println("properties:", ids)
		os.Exit(3)
	}
	prop := os.Args[1]
	tier := "quick"
	if len(os.Args) > 2 {
		tier = os.Args[2]
	} else if t := os.Getenv("VERIF_TIER"); t != "" {
		tier = t
	}
	fn, ok := checks[prop]
	if !ok {
		fmt.Println("unknown property", prop)
		os.Exit(3)
	}
	c := core.NewCtx(prop, tier)
	sig := make(chan os.Signal, 1)
	signal.Notify(sig, syscall.SIGINT, syscall.SIGTERM)
	go func() {
		<-sig
		c.Cleanup()
		os.Exit(3)
	}()
	code := func() (code int) {
		defer c.Cleanup()
		floors := fn(c)
		return c.Finish(floors)
	}()
	os.Exit(code)
}

// mustDriver builds the driver or ends the run: a tree that does not build
// cannot be judged.
func mustDriver(c *core.Ctx, race bool) string {
	p, err := c.BuildDriver(race)
	if err != nil {
		fmt.Printf("BUILD-FAILED property=%s\n%v\n", c.Prop, err)
		c.Cleanup()
		os.Exit(3)
	}
	return p
}

// script is a small builder for driver scripts.
type script struct {
	ops []proto.Op
}

func (s *script) add(op proto.Op) int {
	op.ID = len(s.ops)
	s.ops = append(s.ops, op)
	return op.ID
}

func (s *script) k(kind string) int       { return s.add(proto.Op{K: kind}) }
func (s *script) sql(q string) int        { return s.add(proto.Op{K: "sql", SQL: proto.Text(q)}) }
func (s *script) query(q string) int      { return s.add(proto.Op{K: "query", SQL: proto.Text(q)}) }
func (s *script) stmt(st *proto.Stmt) int { return s.add(proto.Op{K: "stmt", Stmt: st}) }
func (s *script) cfg(noAuto bool, cap int) int {
	n := 0
	if noAuto {
		n = 1
	}
	return s.add(proto.Op{K: "cfg", N: n, M: cap})
}

// open: cfg, init, create database, use
func (s *script) open(noAuto bool, cap int, db string, create bool) {
	s.cfg(noAuto, cap)
	s.k("init")
	if create {
		s.sql("CREATE DATABASE " + db)
	}
	s.sql("USE " + db)
}
