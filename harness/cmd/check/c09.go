package main

import (
	"encoding/json"
	"fmt"
	"strings"
	"sync/atomic"
	"time"

	"verif/harness/internal/core"
	"verif/harness/internal/gen"
	"verif/harness/internal/model"
	"verif/harness/proto"
)

func init() {
	checks["C09"] = checkC09
}

var c09Vocab = func() []string {
	kw := strings.Fields("AS ASC AVG BEGIN BY CASE COMMIT COUNT CREATE DATABASE DELETE DESC DISTINCT ELSE END EXISTS FROM FULL GROUP HAVING IN INNER INSERT INTO JOIN LEFT LIKE LIMIT MAX MIN NOT NULL OFFSET ON ORDER OUTER RIGHT SELECT SET SHOW SUM BOOLEAN INT BIGINT VARCHAR TABLE THEN UNION UNIQUE UPDATE USE VALUES WHEN WHERE WITH TRUE FALSE AND OR")
	other := []string{"!", "*", "=", "!=", ">", "<", "<=", ">=", "(", ")", ",", ".", ";", "abc", "databases", "42", "'str'", `"qid"`, "t.c", "99999999999999999999", "1.5", "`raw`", "-", "'", `"`, "/", "/*", "*/", "//", "\\", "\n"}
	return append(kw, other...)
}()

var c09Small = strings.Fields("SELECT FROM WHERE AND OR = ( ) , . * abc 42 'str' GROUP BY ORDER LIMIT COUNT AVG JOIN ON AS")

type c09Batch struct {
	family string
	inputs []string
}

var c09HangFound int32

const (
	c09ScanMul = 64
	c09TokMul  = 4096
)

func checkC09(c *core.Ctx) []core.Floor {
	c.Rule = "inputs to the session's tokenise+parse path: (a) every token sequence up to a length bound over the full vocabulary (all keywords, operators, punctuation, identifier, quoted identifier, integer, over-long integer, float, string, raw string, lone quotes) plus longer sequences over a reduced vocabulary; (b) every byte prefix and every token prefix of generated valid statements; (c) token deletions / duplications / swaps of valid statements; (d) quote pathology; (e) numeric pathology in every integer position; (e2) 35 awkward tokens (digit separators, hex/binary/float forms, quoted and unterminated strings, two-character operators, multi-byte and invalid UTF-8, comment openers) at every alignment around the multiples of the scanner's 1024-byte buffer, followed by more text and at the end of the input; (e3) identifiers of 1-12 bytes containing letters whose case folding changes their UTF-8 length or has no single-letter result (ɐ ɫ ȿ ⱥ ß ŉ ﬁ K İ ...); (e4) every scanner state that waits for more input (escape digits, exponent, prefix, open quote, ...) followed by a character at the edge of an encoding class (0x7f / U+0080 / U+07FF / U+0800 / surrogate edges / U+FFFF / U+10000 / U+10FFFF / invalid lead and continuation bytes); (f) random bytes incl. NUL and invalid UTF-8; (g) deep nesting (10^5 chained OR/AND terms, long lists). Monitors: recover() (panic), logical step budgets on the scanner (64 x (len+16) characters read) and on the token list (4096 x (len+16) reads) enforced from hooks, independent of machine load, allocation bound per batch; a dead driver names its input. Distinct = input text; non-trivial = the input is not a valid statement (the error paths are what is being exercised)."
	c.Assume = []string{"step budgets are orders of magnitude above what the parser uses on valid input (the observed maximum ratio is reported)"}
	drv := mustDriver(c, false)
	quick := core.Quick(c)
	r := core.NewRand(core.SubSeed(c.Seed, "C09", 0))
	var batches []c09Batch
	add := func(family string, in []string) {
		for len(in) > 0 {
			n := 4000
			if n > len(in) {
				n = len(in)
			}
			batches = append(batches, c09Batch{family: family, inputs: in[:n]})
			in = in[n:]
		}
	}
	// (a) token sequences
	var seqs []string
	V := c09Vocab
	for _, a := range V {
		seqs = append(seqs, a)
		for _, b := range V {
			seqs = append(seqs, a+" "+b)
		}
	}
	c.Extra("exhaustive_token_sequences", fmt.Sprintf("all sequences of length <= 2 over %d tokens", len(V)))
	if quick {
		for i := 0; i < 200000; i++ {
			n := r.Range(3, 4)
			var p []string
			for k := 0; k < n; k++ {
				p = append(p, V[r.Intn(len(V))])
			}
			seqs = append(seqs, strings.Join(p, " "))
		}
	} else {
		for _, a := range V {
			for _, b := range V {
				for _, cc := range V {
					seqs = append(seqs, a+" "+b+" "+cc)
				}
			}
		}
		c.Extra("exhaustive_token_sequences", fmt.Sprintf("all sequences of length <= 3 over %d tokens; all of length <= 5 starting with SELECT over %d tokens", len(V), len(c09Small)))
		S := c09Small
		var rec func(prefix []string, depth int)
		rec = func(prefix []string, depth int) {
			if depth == 0 {
				return
			}
			for _, t := range S {
				p := append(append([]string(nil), prefix...), t)
				seqs = append(seqs, strings.Join(p, " "))
				rec(p, depth-1)
			}
		}
		rec([]string{"SELECT"}, 4)
	}
	add("token_sequences", seqs)
	// valid statements
	g := &gen.StmtGen{R: r}
	nValid := 2000
	if !quick {
		nValid = 30000
	}
	var valid []string
	for i := 0; i < nValid; i++ {
		st := model.Style{KwCase: r.Intn(3), WS: r.Intn(3), OptKw: r.Bool(), QuoteIDs: r.Chance(1, 5), R: r}
		valid = append(valid, model.RenderN(g.Any(), st))
	}
	add("valid_statements", valid)
	// (b) prefixes
	var pref []string
	for i, v := range valid {
		if quick && i%4 != 0 {
			continue
		}
		if len(v) < 300 {
			for k := 0; k < len(v); k++ {
				pref = append(pref, v[:k])
			}
		}
		toks := strings.Fields(v)
		for k := 0; k < len(toks); k++ {
			pref = append(pref, strings.Join(toks[:k], " "))
		}
	}
	add("prefixes", pref)
	// (c) mutations
	var mut []string
	for _, v := range valid {
		toks := strings.Fields(v)
		if len(toks) < 2 {
			continue
		}
		for k := 0; k < 3; k++ {
			t := append([]string(nil), toks...)
			i := r.Intn(len(t))
			switch r.Intn(4) {
			case 0:
				t = append(t[:i], t[i+1:]...)
			case 1:
				t = append(t[:i+1], t[i:]...)
			case 2:
				j := r.Intn(len(t))
				t[i], t[j] = t[j], t[i]
			default:
				t[i] = V[r.Intn(len(V))]
			}
			mut = append(mut, strings.Join(t, " "))
		}
	}
	// token-span duplications and transpositions (repeated clauses)
	for _, v := range valid {
		toks := strings.Fields(v)
		if len(toks) < 3 {
			continue
		}
		for k := 0; k < 2; k++ {
			i := r.Intn(len(toks))
			j := i + r.Range(1, 4)
			if j > len(toks) {
				j = len(toks)
			}
			t := append([]string(nil), toks[:j]...)
			t = append(t, toks[i:j]...)
			t = append(t, toks[j:]...)
			mut = append(mut, strings.Join(t, " "))
		}
	}
	add("mutations", mut)
	// (c2) substitutions: every token of a valid statement replaced, one at a
	// time, by a token of another class (a number where a name stands, a name
	// where a number stands, a literal, punctuation, an aggregate)
	subs := []string{"1", "2", "3", "0", "'s'", "x", "t.x", "*", "(", ")", ",", "count(*)", "avg(a)", "NULL", "-"}
	var sub []string
	for i, v := range valid {
		if quick && i%4 != 0 {
			continue
		}
		toks := strings.Fields(v)
		if len(toks) > 40 {
			continue
		}
		for k := range toks {
			for _, sb := range subs {
				if toks[k] == sb {
					continue
				}
				t := append([]string(nil), toks...)
				t[k] = sb
				sub = append(sub, strings.Join(t, " "))
			}
		}
	}
	add("substitutions", sub)
	// tokens of multi-byte text, 20-70 characters (40-210 bytes), in the places
	// where the parser names the token it did not expect
	{
		var mb []string
		for _, ch := range []string{"é", "日", "😀", "ж"} {
			for n := 20; n <= 70; n++ {
				tok := strings.Repeat(ch, n)
				mb = append(mb, tok, tok+" x", "SHOW "+tok, "CREATE "+tok, "CREATE TABLE t (a "+tok+")", "SELECT * FROM t WHERE "+tok+" AND a = 1",
					"SELECT * FROM t LIMIT '"+tok+"'", "SELECT * FROM t ORDER BY '"+tok+"'", "INSERT INTO t VALUES ("+tok+")", "USE '"+tok+"'", "SELECT "+tok+" "+tok+" "+tok)
			}
		}
		add("multibyte_tokens_where_the_parser_names_them", mb)
	}
	// one long-lived process that keeps seeing names it has not seen before
	// (tens of thousands of distinct words): whatever the front end remembers
	// between statements must not wear out
	{
		var lp []string
		nlp := 30000
		if !quick {
			nlp = 120000
		}
		for i := 0; i < nlp; i++ {
			lp = append(lp, fmt.Sprintf("select col_%d, c%dx from tbl_%d where col_%d = %d order by c%dx", i, i, i, i, i, i))
		}
		batches = append(batches, c09Batch{family: "long_process", inputs: lp})
	}
	// every sequence of up to 4 clauses (repetitions and wrong orders included)
	// after each statement head
	clauses := []string{"FROM t", "WHERE a = 1", "GROUP BY a", "ORDER BY a DESC", "LIMIT 1", "OFFSET 2", "JOIN u ON a = b", "LEFT JOIN u x ON x.a = t.b", "AS z", ", b", "AND c = 2", "OR d < 3", "VALUES (1, 'a')", "SET a = 1", "(a, b)", ";", "ORDER BY 1", "ORDER BY 2 DESC", "GROUP BY 1", "ORDER BY count(*)", "HAVING a = 1", "WHERE 1"}
	heads := []string{"SELECT *", "SELECT a, count(*)", "SELECT * FROM t", "INSERT INTO t", "UPDATE t", "DELETE FROM t", "CREATE TABLE t (a int)", "SELECT avg(a) FROM t WHERE b = 1"}
	var cl []string
	depth := 3
	if !quick {
		depth = 4
	}
	var recC func(prefix string, d int)
	recC = func(prefix string, d int) {
		if d == 0 {
			return
		}
		for _, cz := range clauses {
			s := prefix + " " + cz
			cl = append(cl, s)
			recC(s, d-1)
		}
	}
	for _, h := range heads {
		recC(h, depth)
	}
	add("clause_sequences", cl)
	// (d) quotes
	var quo []string
	for _, q := range []string{"'", `"`, "`"} {
		quo = append(quo, q, q+q, q+q+q, q+"abc", "abc"+q, q+"a\nb"+q, q+"\\", q+"\\"+q, q+"\\x", q+"\\u12", q+"\\777"+q, "SELECT "+q, "SELECT * FROM t WHERE a = "+q, "INSERT INTO t VALUES ("+q+")", "SELECT "+q+" FROM t", q+strings.Repeat("x", 2000), q+strings.Repeat("x", 2000)+q, "USE "+q, "CREATE TABLE "+q+" (a int)")
		for k := 0; k < 40; k++ {
			quo = append(quo, "SELECT "+q+strings.Repeat("a", k))
		}
	}
	add("quotes", quo)
	// (e) numerics
	var num []string
	bigs := []string{"9223372036854775807", "9223372036854775808", "18446744073709551616", strings.Repeat("9", 19), strings.Repeat("9", 25), strings.Repeat("9", 40), "0x7fffffffffffffffff", "0777777777777777777777777", "1e400", "1_000", "0b12", "1.", ".5", "0x", "1e", "00000000000000000000000001"}
	for _, b := range bigs {
		num = append(num, "SELECT * FROM t LIMIT "+b, "SELECT * FROM t OFFSET "+b, "SELECT * FROM t LIMIT 1 OFFSET "+b, "CREATE TABLE t (a varchar("+b+"))", "INSERT INTO t VALUES ("+b+")", "INSERT INTO t VALUES (1, "+b+"), (2)", "SELECT * FROM t WHERE a = "+b, "SELECT * FROM t WHERE "+b+" < a", "UPDATE t SET a = "+b, "DELETE FROM t WHERE a >= "+b, "SELECT "+b, "SELECT "+b+" = "+b, b)
	}
	add("numerics", num)
	// (e2) every awkward token at every alignment around the multiples of the
	// scanner's 1024-byte read buffer: the token starts before, on and after
	// the boundary, with something following it and at the end of the input
	var bnd []string
	hazards := []string{"1_000", "0x_ff", "1_0.5", "12345678901234567890", "0x7f", "1e5", "1.5e+3", ".5", "1.", "0b101", "0o17", "'quoted text'", `"quoted ident"`, "`raw`", "'unterminated", `"unterminated`, "<=", ">=", "!=", "<>", "identifier_with_digits_123", "café", "日本語", "tbl٣", "€", "\xe2\x82", "\xff", "/* c */", "// c", "-- c", "'it''s'", "'a\\'b'", "\x00", "TRUE", "9223372036854775808"}
	bounds := []int{1024, 2048}
	if !quick {
		bounds = []int{1024, 2048, 3072, 4096, 8192, 65536}
	}
	for _, hz := range hazards {
		for _, bd := range bounds {
			for off := bd - len(hz) - 2; off <= bd+2; off++ {
				head := "SELECT a FROM t WHERE a = 1 AND b ="
				if off <= len(head) {
					continue
				}
				pad := strings.Repeat(" ", off-len(head))
				bnd = append(bnd, head+pad+hz+" OR c = 2", head+pad+hz)
			}
		}
	}
	add("buffer_boundary", bnd)
	// (e3) identifiers of 1-12 bytes made of letters whose upper-case or
	// lower-case form has another length in UTF-8, is another letter of the
	// same case, or does not exist: anything that folds case into a buffer
	// sized from the original text meets its boundary here
	var uc []string
	special := []string{"ɐ", "ɑ", "ɒ", "ɜ", "ɡ", "ɥ", "ɦ", "ɪ", "ɫ", "ɬ", "ɱ", "ɽ", "ʇ", "ʝ", "ʞ", "ȿ", "ɀ", "ⱥ", "ⱦ", "ı", "ſ", "ß", "ŉ", "ǰ", "ΐ", "ΰ", "և", "ẖ", "ﬁ", "ﬃ", "\u212a", "\u212b", "İ", "ǅ", "ᾳ", "ꭰ", "Ⱥ", "Ⱦ", "ẞ", "σ", "ς"}
	for _, sp := range special {
		for total := 1; total <= 12; total++ {
			for _, lead := range []bool{true, false} {
				fill := total - len(sp)
				if fill < 0 {
					continue
				}
				id := strings.Repeat("x", fill) + sp
				if lead {
					id = sp + strings.Repeat("x", fill)
				}
				uc = append(uc, "SELECT "+id+" FROM t", "SELECT a FROM "+id+" WHERE "+id+" = 1")
				if fill >= len(sp) && total <= 9 {
					two := sp + strings.Repeat("x", fill-len(sp)) + sp
					uc = append(uc, "CREATE TABLE "+two+" (a int)", "INSERT INTO t ("+two+") VALUES (1)")
				}
			}
		}
	}
	add("unicode_case", uc)
	// (e4) every scanner state that is waiting for more of something (an
	// escape's digits, an exponent, a hex prefix, an open quote, an identifier,
	// a sign) followed by a character at the edge of an encoding class
	var edge []string
	waiting := []string{"'\\x", "'\\x4", "'\\u12", "'\\U0001", "'ab\\7", "'\\", "\"c\\U0001", "\"\\x", "`", "'", "\"", "1e", "1e+", "0x", "0b", "0o", "1_", "1.", ".", "a", "_", "<", "!", "-", "/", "/*", "//", "12", "0"}
	runes := []string{"\x00", "\x7f", "\u0080", "\u0081", "\u00ff", "\u0100", "\u07ff", "\u0800", "\ud7ff", "\ue000", "\ufffd", "\ufeff", "\uffff", "\U00010000", "\U0010ffff", "\x80", "\xbf", "\xc0", "\xc2", "\xe0\x80", "\xed\xa0\x80", "\xf4\x90\x80\x80", "\xf8", "\xff"}
	for _, wt := range waiting {
		for _, rn := range runes {
			edge = append(edge, "SELECT "+wt+rn, "SELECT "+wt+rn+"' FROM t", "SELECT * FROM t WHERE a = "+wt+rn+" AND b = 1")
		}
	}
	add("encoding_edges", edge)
	// (f) random bytes
	var rnd []string
	nr := 3000
	if !quick {
		nr = 60000
	}
	for i := 0; i < nr; i++ {
		n := r.Intn(200)
		if r.Chance(1, 20) {
			n = r.Intn(4096)
		}
		b := make([]byte, n)
		for k := range b {
			switch r.Intn(4) {
			case 0:
				b[k] = byte(r.Intn(256))
			case 1:
				b[k] = " \t\n'\"`;,.()=<>!*"[r.Intn(16)]
			default:
				b[k] = byte(32 + r.Intn(95))
			}
		}
		s := string(b)
		if r.Chance(1, 3) {
			s = []string{"SELECT ", "INSERT INTO ", "CREATE TABLE ", "UPDATE t SET "}[r.Intn(4)] + s
		}
		rnd = append(rnd, s)
	}
	add("random_bytes", rnd)
	// (g) deep nesting: one input per batch so that a dead driver names it
	deepN := 100000
	for _, s := range []string{
		"SELECT * FROM t WHERE " + strings.Repeat("x = 1 OR ", deepN) + "x = 1",
		"SELECT * FROM t WHERE " + strings.Repeat("x = 1 AND ", deepN) + "x = 1",
		"SELECT * FROM t WHERE " + strings.Repeat("x = 1 AND y = 2 OR ", deepN/2) + "x = 1",
		"SELECT " + strings.Repeat("a, ", deepN) + "a FROM t",
		"INSERT INTO t VALUES " + strings.Repeat("(1, 'a'), ", deepN) + "(1, 'a')",
		"SELECT * FROM t " + strings.Repeat("JOIN u ON a = b ", deepN/4),
		strings.Repeat("(", deepN),
		strings.Repeat("SELECT ", deepN),
		"SELECT * FROM t ORDER BY " + strings.Repeat("a, ", deepN) + "a",
		"SELECT * FROM t WHERE a = '" + strings.Repeat("x", 1<<20) + "'",
	} {
		batches = append(batches, c09Batch{family: "deep", inputs: []string{s}})
	}
	core.ParallelFor(len(batches), c.Workers, func(bi int) { runC09Batch(c, drv, batches[bi]) })
	c.Sample(6, map[string]interface{}{"family": "token_sequences", "example": seqs[len(seqs)/2]})
	c.Sample(6, map[string]interface{}{"family": "prefixes", "example": pref[len(pref)/2]})
	c.Sample(6, map[string]interface{}{"family": "mutations", "example": mut[len(mut)/2]})
	fl := []core.Floor{{Key: "inputs", Min: 50000}}
	for _, f := range []string{"token_sequences", "valid_statements", "prefixes", "mutations", "substitutions", "long_process", "multibyte_tokens_where_the_parser_names_them", "clause_sequences", "quotes", "numerics", "buffer_boundary", "unicode_case", "encoding_edges", "random_bytes", "deep"} {
		fl = append(fl, core.Floor{Key: "family_" + f, Min: 1})
	}
	fl = append(fl, core.Floor{Key: "outcome_statement", Min: 1000}, core.Floor{Key: "outcome_error", Min: 1000})
	return fl
}

func runC09Batch(c *core.Ctx, drv string, b c09Batch) {
	dir := c.CaseDir("c09")
	defer removeAll(dir)
	var in struct {
		In      []proto.Text `json:"in"`
		ScanMul int64        `json:"scanMul"`
		TokMul  int64        `json:"tokMul"`
	}
	in.ScanMul, in.TokMul = c09ScanMul, c09TokMul
	for _, s := range b.inputs {
		in.In = append(in.In, proto.Text(s))
	}
	raw, _ := json.Marshal(in)
	out := core.RunScript(drv, dir, []proto.Op{{K: "parsemany", Raw: raw}}, 45*time.Second)
	c.Count("family_"+b.family, int64(len(b.inputs)))
	c.Count("inputs", int64(len(b.inputs)))
	if out.Died || len(out.Res) == 0 || out.Res[0].Failed() {
		if out.TimedOut {
			// No logical budget was exceeded (the driver would have said so),
			// so the loop, if there is one, has no hook inside. Isolate the
			// input by bisection and run it ALONE with a limit about a
			// million times what parsing takes; only if it still does not
			// finish is it a hang (the property is about hanging). Anything
			// else stays inconclusive.
			if atomic.LoadInt32(&c09HangFound) > 0 {
				// one isolated witness is enough; do not spend minutes
				// bisecting every other batch that hangs the same way
				c.Count("batches_timed_out_after_a_hang_was_isolated", 1)
				return
			}
			guilty := b.inputs
			for len(guilty) > 1 {
				half := guilty[:len(guilty)/2]
				if died, to := c09Run(drv, dir, half, 20*time.Second); to {
					guilty = half
				} else if died {
					guilty = half
				} else {
					guilty = guilty[len(guilty)/2:]
				}
			}
			if _, to := c09Run(drv, dir, guilty, 60*time.Second); to {
				atomic.StoreInt32(&c09HangFound, 1)
				c.Violation("C09:hang", fmt.Sprintf("tokenise+parse of a %d-byte input did not finish within 60 s when run alone (family %s): %q", len(guilty[0]), b.family, clip(guilty[0], 300)),
					map[string]interface{}{"family": b.family, "input": clip(guilty[0], 3000), "input_hex": fmt.Sprintf("%x", clip(guilty[0], 400)), "input_len": len(guilty[0])})
			} else {
				c.Inconclusive("watchdog", "parse batch of family "+b.family+" exceeded the wall-clock watchdog but no single input reproduces it")
			}
			return
		}
		// find the guilty input by bisection when the batch has several
		guilty := b.inputs
		for len(guilty) > 1 {
			half := guilty[:len(guilty)/2]
			if c09Dies(drv, dir, half) {
				guilty = half
			} else {
				guilty = guilty[len(guilty)/2:]
			}
		}
		msg := core.FatalTail(out.Stderr)
		if len(out.Res) > 0 {
			msg += out.Res[0].Panic + out.Res[0].Err
		}
		c.Violation("C09:process-died:"+errClass(msg), fmt.Sprintf("the driver process died while parsing (family %s): %s\ninput (%d bytes): %s", b.family, msg, len(guilty[0]), clip(guilty[0], 300)),
			map[string]interface{}{"family": b.family, "input_prefix": clip(guilty[0], 2000), "input_len": len(guilty[0])})
		return
	}
	var o struct {
		Out string `json:"out"`
		Bad []struct {
			I     int    `json:"i"`
			Kind  string `json:"kind"`
			Msg   string `json:"msg"`
			Frame string `json:"frame"`
		} `json:"bad"`
		MaxScan int64  `json:"maxScanX1000"`
		MaxTok  int64  `json:"maxTokX1000"`
		Alloc   uint64 `json:"alloc"`
		Bytes   int64  `json:"bytes"`
		Stmts   int    `json:"stmts"`
		Errors  int    `json:"errors"`
	}
	if err := json.Unmarshal(out.Res[0].Raw, &o); err != nil {
		c.Inconclusive("harness", err.Error())
		return
	}
	c.Count("outcome_statement", int64(o.Stmts))
	c.Count("outcome_error", int64(o.Errors))
	c.Max("max_scanner_steps_per_input_byte_x1000", o.MaxScan)
	c.Max("max_token_reads_per_input_byte_x1000", o.MaxTok)
	bound := uint64(len(b.inputs))*32768 + uint64(o.Bytes)*4096 + 1<<20
	c.Max("max_alloc_percent_of_bound", int64(o.Alloc*100/bound))
	if o.Alloc > bound {
		c.Violation("C09:allocation-out-of-proportion", fmt.Sprintf("family %s: %d bytes allocated for %d inputs / %d input bytes", b.family, o.Alloc, len(b.inputs), o.Bytes), map[string]interface{}{"family": b.family, "first_input": clip(b.inputs[0], 500)})
	}
	for i, s := range b.inputs {
		c.Eval(s, i < len(o.Out) && o.Out[i] != 'o')
	}
	for _, bd := range o.Bad {
		inp := b.inputs[bd.I]
		rp := map[string]interface{}{"family": b.family, "input": clip(inp, 3000), "input_hex_if_binary": fmt.Sprintf("%x", clip(inp, 200)), "input_len": len(inp)}
		switch bd.Kind {
		case "panic":
			c.Violation("C09:panic:"+bd.Frame, fmt.Sprintf("parser panicked: %s\ninput: %s", bd.Msg, clip(inp, 300)), rp)
		case "budget":
			c.Violation("C09:nontermination:"+bd.Msg, fmt.Sprintf("step budget exceeded (%s) on input: %s", bd.Msg, clip(inp, 300)), rp)
		case "emptyerr":
			c.Count("errors_with_empty_text", 1)
		}
	}
}

func c09Dies(drv, dir string, inputs []string) bool {
	died, to := c09Run(drv, dir, inputs, 300*time.Second)
	return died && !to
}

// c09Run parses the inputs in a fresh driver; it reports whether the driver
// died and whether the wall-clock limit ended it.
func c09Run(drv, dir string, inputs []string, limit time.Duration) (died, timedOut bool) {
	var in struct {
		In      []proto.Text `json:"in"`
		ScanMul int64        `json:"scanMul"`
		TokMul  int64        `json:"tokMul"`
	}
	in.ScanMul, in.TokMul = c09ScanMul, c09TokMul
	for _, s := range inputs {
		in.In = append(in.In, proto.Text(s))
	}
	raw, _ := json.Marshal(in)
	out := core.RunScript(drv, dir, []proto.Op{{K: "parsemany", Raw: raw}}, limit)
	return out.Died, out.TimedOut
}
