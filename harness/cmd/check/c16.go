package main

import (
	"fmt"
	"strings"
	"time"

	"verif/harness/internal/core"
	"verif/harness/internal/gen"
	"verif/harness/internal/model"
	"verif/harness/proto"
)

func init() {
	checks["C16"] = checkC16
}

type c16Op struct {
	stmt  *proto.Stmt
	query string
}

// buildC16 builds a workload whose per-statement dirty set stays small:
// inserts of at most 40 rows, updates/deletes over at most 40 consecutive
// keys; every statement is followed by a flush.
func buildC16(c *core.Ctx, idx int) []c16Op {
	r := core.NewRand(core.SubSeed(c.Seed, "C16", idx))
	h := gen.NewHist(r, false)
	nt := r.Range(2, 4)
	var opsl []c16Op
	push := func(s *proto.Stmt) {
		if f, _, _, err := h.DB.Apply(s); f != "" || err != nil {
			return
		}
		opsl = append(opsl, c16Op{stmt: s})
	}
	if idx%3 == 2 {
		// wide catalog: the catalog itself is larger than the small cache, so
		// every statement's catalog scan evicts what the statement looked at
		// before
		nt = r.Range(40, 60)
		h.MaxCols = 6
		for i := 0; i < nt; i++ {
			push(h.CreateTable())
		}
		for step := 0; step < 250; step++ {
			t := h.DB.Tables[r.Intn(len(h.DB.Tables))]
			switch x := r.Intn(10); {
			case x < 6 || len(t.Rows) < 3:
				s := &proto.Stmt{Kind: "insert", Table: t.Name}
				for i, n := 0, r.Range(1, 4); i < n; i++ {
					s.Rows = append(s.Rows, h.NewRow(t, r.Intn(3)))
				}
				push(s)
			case x < 8:
				u := h.Update(t)
				u.Where = model.Cmp("=", model.ColOp("k"), model.LitOp(proto.Int(int64(r.Intn(len(t.Rows)+1)))))
				push(u)
			default:
				push(&proto.Stmt{Kind: "delete", Table: t.Name, Where: model.Cmp("=", model.ColOp("k"), model.LitOp(proto.Int(int64(r.Intn(len(t.Rows)+1)))))})
			}
			if r.Chance(1, 3) {
				opsl = append(opsl, c16Op{query: "SELECT * FROM " + h.DB.Tables[r.Intn(len(h.DB.Tables))].Name})
			}
		}
		return opsl
	}
	for i := 0; i < nt; i++ {
		push(h.CreateTable())
	}
	target := r.Range(200, 500)
	if !core.Quick(c) {
		target = r.Range(300, 1000)
		if r.Chance(1, 10) {
			target = r.Range(1000, 2000)
		}
	}
	rng := func(t *model.Table, span int) *proto.Cond {
		var mx int64
		for _, row := range t.Rows {
			if row.Vals[0].I > mx {
				mx = row.Vals[0].I
			}
		}
		lo := int64(r.Intn(int(mx) + 1))
		return model.And(model.Cmp(">=", model.ColOp("k"), model.LitOp(proto.Int(lo))), model.Cmp("<", model.ColOp("k"), model.LitOp(proto.Int(lo+int64(span)))))
	}
	wide := idx%4 == 2
	steps := 0
	for {
		done := true
		for _, t := range h.DB.Tables {
			if len(t.Rows) < target {
				done = false
			}
		}
		if done || steps > 600 {
			break
		}
		steps++
		t := h.DB.Tables[r.Intn(len(h.DB.Tables))]
		switch x := r.Intn(10); {
		case x < 6 || len(t.Rows) < 20:
			s := &proto.Stmt{Kind: "insert", Table: t.Name}
			n := r.Range(10, 40)
			for i := 0; i < n; i++ {
				s.Rows = append(s.Rows, h.NewRow(t, r.Intn(2)))
			}
			push(s)
		case x < 8:
			u := h.Update(t)
			u.Where = rng(t, r.Range(1, 10))
			if wide && r.Chance(1, 3) {
				// a statement that changes 40-80 pages: with a cache just
				// above that, the cold end of the cache is one long run of
				// changed pages while it runs
				u.Where = rng(t, r.Range(150, 320))
			}
			push(u)
		default:
			span := r.Range(1, 12)
			if wide && r.Chance(1, 4) {
				span = r.Range(150, 300)
			}
			push(&proto.Stmt{Kind: "delete", Table: t.Name, Where: rng(t, span)})
		}
		// observation: full scan of a table, a filtered scan, a catalog scan
		qt := h.DB.Tables[r.Intn(len(h.DB.Tables))]
		switch r.Intn(4) {
		case 0:
			opsl = append(opsl, c16Op{query: "SELECT * FROM " + qt.Name})
		case 1:
			opsl = append(opsl, c16Op{query: fmt.Sprintf("SELECT k, g FROM %s WHERE g = %d", qt.Name, r.Intn(5))})
		case 2:
			opsl = append(opsl, c16Op{query: "SELECT table_name, field_name FROM sys_schema"})
		}
	}
	return opsl
}

// c16IDBase: the row-id counter the workload starts from - a fresh database,
// or one that has handed out ids before (just below 2^16, 2^24, 2^31, close to
// the top): keys of every width get written to pages and read back.
func c16IDBase(idx int) int {
	return []int{0, 65500, 0, 16777000, 1 << 31, 0, 4294000000, 65000}[idx%8]
}

// c16FlushEvery: dirty pages are flushed after every statement, or after every
// second, third or fifth one (the dirty set the capacities are chosen above is
// then that of the whole window, as measured in the reference run).
func c16FlushEvery(idx int) int { return []int{1, 1, 2, 3, 5, 1, 2, 4}[(idx/2)%8] }

func c16Script(opsl []c16Op, capPages int, dir string, idBase int, flushEvery ...int) script {
	var s script
	s.add(proto.Op{K: "cfg", N: 1, M: capPages, S: "count-misses"})
	s.k("init")
	s.sql("CREATE DATABASE d1")
	s.sql("USE d1")
	if idBase > 0 {
		s.add(proto.Op{K: "setlastkey", N: idBase})
	}
	fe, nst := 1, 0
	if len(flushEvery) > 0 && flushEvery[0] > 1 {
		fe = flushEvery[0]
	}
	for _, o := range opsl {
		if o.stmt != nil {
			s.stmt(o.stmt)
			nst++
			if nst%fe == 0 {
				s.k("flush")
			}
		} else {
			s.query(o.query)
		}
	}
	s.k("flush")
	s.k("dump")
	s.add(proto.Op{K: "walk", M: 1})
	s.k("stats")
	s.k("close")
	return s
}

func rowsKey(r *proto.Res) string {
	b := fmt.Sprintf("err=%q panic=%q cols=%v n=%d;", r.Err, r.Panic, r.Cols, r.Count)
	for _, row := range r.Rows {
		b += fmt.Sprintf("%d:", row.ID)
		for _, v := range row.Vals {
			b += v.Enc() + ","
		}
		b += ";"
	}
	return b
}

func checkC16(c *core.Ctx) []core.Floor {
	c.Rule = "seeded workloads over 2-4 tables of 200-500 rows (quick) / 300-2000 rows (thorough) (inserts <= 40 rows, updates/deletes over <= 12 consecutive keys - in one workload in four also over 150-320 consecutive keys, changing 40-80 pages in one statement -, full scans, filtered scans, catalog scans), dirty pages flushed after every statement - or after every second, third, fourth or fifth one -, in a fresh database or in one whose row-id counter starts just below 2^16, 2^24, 2^31 or close to 2^32; run once with the default cache (10000 pages), measuring the largest per-statement dirty set and the tree height, then with small capacities chosen above that dirty set (precondition of the property guaranteed by construction); every statement outcome, every SELECT result (with row ids) and the final contents must be identical. Beyond the property's precondition (a statement whose dirty set EXCEEDS the capacity) one more thing is judged, on as many further runs: the statement may be refused with 'cache is full', but if it reports success its effects have to be there - every row of an accepted UPDATE changed, of an accepted DELETE gone, of an accepted INSERT present - immediately and after flush + reload. Distinct = (workload, capacity); non-trivial = the small run re-read at least 1000 pages from the file."
	c.Assume = []string{"the default-capacity run is the reference; its own correctness is C01's business"}
	drv := mustDriver(c, false)
	n := 24
	if !core.Quick(c) {
		n = 96
	}
	core.ParallelFor(n, c.Workers, func(i int) { runC16(c, drv, i) })
	core.ParallelFor(n, c.Workers, func(i int) { runC16Saturated(c, drv, i) })
	minReload := int64(10000)
	if !core.Quick(c) {
		minReload = 1000000
	}
	return []core.Floor{{Key: "small_cache_runs", Min: int64(n)}, {Key: "pages_reloaded_from_file", Min: minReload}, {Key: "statements_compared", Min: 1000}, {Key: "runs_db_at_least_4x_cache", Min: int64(n / 2)}, {Key: "wide_catalog_runs", Min: 4}, {Key: "saturated_runs", Min: int64(n)}, {Key: "saturated_statements_refused", Min: 4}}
}

func runC16(c *core.Ctx, drv string, idx int) {
	opsl := buildC16(c, idx)
	dir := c.CaseDir("c16")
	defer removeAll(dir)
	ref := c16Script(opsl, 0, dir, c16IDBase(idx), c16FlushEvery(idx))
	out := core.RunScript(drv, dir, ref.ops, 300*time.Second)
	if out.Died {
		c.Inconclusive("reference-run", fmt.Sprintf("default-capacity run died at op %d: %s", out.LastBeg, core.FatalTail(out.Stderr)))
		return
	}
	maxDirty := int64(0)
	for i, op := range ref.ops {
		if op.K == "flush" && out.Res[i].N > maxDirty {
			maxDirty = out.Res[i].N
		}
		if out.Res[i].Panic != "" {
			c.Inconclusive("reference-run", "panic in the default-capacity run: "+out.Res[i].Panic)
			return
		}
	}
	walkRes := out.Res[len(ref.ops)-3] // (dump, walk, stats, close are the last four operations)
	stats, _ := checkTrees(walkRes.Trees)
	height, pages := 1, 0
	for _, st := range stats {
		if st.Depth > height {
			height = st.Depth
		}
		pages += st.Leaves + st.Internals
	}
	base := int(maxDirty) + 3*height + 4
	if base < 8 {
		base = 8
	}
	caps := []int{base, base + 1, 2 * base, 4 * base}
	if !core.Quick(c) {
		caps = append(caps, 64, 256)
	}
	r := core.NewRand(core.SubSeed(c.Seed, "C16caps", idx))
	if core.Quick(c) {
		caps = []int{base, caps[1+r.Intn(3)]}
	}
	for _, cp := range caps {
		if cp < base {
			continue
		}
		d2 := c.CaseDir("c16s")
		sc := c16Script(opsl, cp, d2, c16IDBase(idx), c16FlushEvery(idx))
		o2 := core.RunScript(drv, d2, sc.ops, 300*time.Second)
		removeAll(d2)
		replay := func(at int) interface{} {
			var texts []string
			for i := 0; i <= at && i < len(sc.ops); i++ {
				op := sc.ops[i]
				switch {
				case op.Stmt != nil:
					texts = append(texts, clip(model.RenderStmt(op.Stmt, model.Plain), 160))
				case op.SQL != "":
					texts = append(texts, string(op.SQL))
				}
			}
			if len(texts) > 40 {
				texts = append([]string{fmt.Sprintf("... %d earlier statements (workload C16/%d of this seed)", len(texts)-40, idx)}, texts[len(texts)-40:]...)
			}
			return map[string]interface{}{"workload": idx, "capacity": cp, "max_dirty_pages_per_statement": maxDirty, "tree_height": height, "statements": texts, "flush_after_every_n_statements": c16FlushEvery(idx), "how": "flush after every n-th statement; compare with the same workload at the default capacity"}
		}
		c.Count("small_cache_runs", 1)
		if o2.Died {
			if o2.TimedOut {
				c.Inconclusive("watchdog", "small-cache run timed out")
			} else {
				c.Violation("C16:small-cache-run-died:"+errClass(core.FatalTail(o2.Stderr)), fmt.Sprintf("capacity %d: process died at op %d (%s): %s", cp, o2.LastBeg, sc.ops[o2.LastBeg].K, core.FatalTail(o2.Stderr)), replay(o2.LastBeg))
			}
			continue
		}
		bad := false
		for i := range sc.ops {
			k := sc.ops[i].K
			if k == "stats" || k == "walk" || k == "cfg" {
				continue
			}
			a, b := &out.Res[i], &o2.Res[i]
			if k == "dump" {
				if !dumpsEqual(a.Tables, b.Tables) || a.Err != b.Err {
					c.Violation("C16:final-contents-differ", fmt.Sprintf("capacity %d: final table contents differ from the default-capacity run (err %q vs %q)", cp, b.Err, a.Err), replay(i))
					bad = true
					break
				}
				continue
			}
			if k == "flush" {
				if a.Err != b.Err {
					c.Violation("C16:flush-outcome-differs:"+errClass(b.Err), fmt.Sprintf("capacity %d: flush returned %q, default run %q", cp, b.Err, a.Err), replay(i))
					bad = true
					break
				}
				continue
			}
			c.Count("statements_compared", 1)
			if rowsKey(a) != rowsKey(b) {
				what := "result rows differ"
				sig := "C16:select-result-differs"
				if a.Err != b.Err || a.Panic != b.Panic {
					what = fmt.Sprintf("outcome differs: small cache %q %q, default %q %q", b.Err, b.Panic, a.Err, a.Panic)
					sig = "C16:statement-outcome-differs:" + errClass(b.Err+b.Panic)
				}
				c.Violation(sig, fmt.Sprintf("capacity %d, op %d (%s): %s", cp, i, k, what), replay(i))
				bad = true
				break
			}
		}
		st := o2.Res[len(sc.ops)-2]
		c.Count("pages_reloaded_from_file", st.N)
		if pages >= 4*cp {
			c.Count("runs_db_at_least_4x_cache", 1)
		}
		if pages >= 20*cp {
			c.Count("runs_db_at_least_20x_cache", 1)
		}
		if idx%3 == 2 {
			c.Count("wide_catalog_runs", 1)
		}
		if cp == base {
			c.Max("largest_dirty_set", maxDirty)
			c.Count("runs_at_minimum_capacity", 1)
		}
		c.Eval(fmt.Sprintf("%d/%d", idx, cp), st.N >= 1000 && !bad)
	}
	c.Sample(3, map[string]interface{}{"workload": idx, "operations": len(opsl), "db_pages": pages, "max_dirty_per_statement": maxDirty, "tree_height": height, "capacities": caps})
}

// runC16Saturated: a cache smaller than one statement's dirty set. The
// property says nothing about whether such a statement is accepted; but a
// statement that reports success must have taken effect.
func runC16Saturated(c *core.Ctx, drv string, idx int) {
	dir := c.CaseDir("c16s")
	defer removeAll(dir)
	r := core.NewRand(core.SubSeed(c.Seed, "C16S", idx))
	capPages := r.Range(8, 20)
	nrows := r.Range(100, 240)
	var s script
	s.cfg(true, capPages)
	s.k("init")
	s.sql("CREATE DATABASE d1")
	s.sql("USE d1")
	s.sql("CREATE TABLE t (k INT, v VARCHAR(10))")
	for from := 0; from < nrows; from += 12 { // 12 rows dirty about 4 pages: well within the cache
		var p []string
		for i := from; i < from+12 && i < nrows; i++ {
			p = append(p, fmt.Sprintf("(%d, 'old')", i))
		}
		s.sql("INSERT INTO t VALUES " + strings.Join(p, ", "))
		s.k("flush")
	}
	type probe struct {
		stmt, sel int
		kind      string
	}
	var probes []probe
	add := func(kind, q string) {
		st := s.sql(q)
		probes = append(probes, probe{st, s.query("SELECT k, v FROM t"), kind})
		s.k("flush")
		// cold read
		s.k("close")
		s.k("session")
		s.sql("USE d1")
		probes = append(probes, probe{st, s.query("SELECT k, v FROM t"), kind + "_after_reload"})
	}
	add("update", "UPDATE t SET v = 'new'")
	var p []string
	for i := 0; i < 150; i++ {
		p = append(p, fmt.Sprintf("(%d, 'ins')", 10000+i))
	}
	add("insert", "INSERT INTO t VALUES "+strings.Join(p, ", "))
	add("delete", "DELETE FROM t WHERE k >= 0")
	s.k("close")
	out := core.RunScript(drv, dir, s.ops, 120*time.Second)
	c.Count("saturated_runs", 1)
	if out.Died || len(out.Res) != len(s.ops) {
		if out.TimedOut {
			c.Inconclusive("watchdog", "C16 saturated run exceeded the watchdog")
			return
		}
		c.Violation("C16:saturated-cache:process-died:"+errClass(core.FatalTail(out.Stderr)), "process died with a cache smaller than the statement's dirty set: "+core.FatalTail(out.Stderr), map[string]interface{}{"capacity": capPages, "rows": nrows})
		return
	}
	refused := map[int]bool{}
	for _, pr := range probes {
		st := out.Res[pr.stmt]
		if st.Panic != "" {
			c.Violation("C16:saturated-cache:panic:"+st.Frame, "statement panicked: "+st.Panic, map[string]interface{}{"capacity": capPages, "rows": nrows, "statement": clip(string(s.ops[pr.stmt].SQL), 120)})
			return
		}
		if st.Err != "" {
			if !refused[pr.stmt] {
				refused[pr.stmt] = true
				c.Count("saturated_statements_refused", 1)
			}
			// a refused statement may have been applied in part (outside what
			// C16 states); everything after it is not judged
			return
		}
		sel := out.Res[pr.sel]
		if sel.Failed() {
			c.Violation("C16:saturated-cache:select-failed", fmt.Sprintf("after an accepted %s with a cache of %d pages SELECT failed: %s%s", pr.kind, capPages, sel.Err, sel.Panic), map[string]interface{}{"capacity": capPages, "rows": nrows})
			return
		}
		c.Count("saturated_statements_accepted_and_verified", 1)
		bad := ""
		switch {
		case strings.HasPrefix(pr.kind, "update"):
			old := 0
			for _, row := range sel.Rows {
				if len(row.Vals) == 2 && row.Vals[1].S != "new" {
					old++
				}
			}
			if old > 0 || len(sel.Rows) != nrows {
				bad = fmt.Sprintf("UPDATE of all %d rows reported success; %d rows returned, %d still hold the old value", nrows, len(sel.Rows), old)
			}
		case strings.HasPrefix(pr.kind, "insert"):
			if len(sel.Rows) != nrows+150 {
				bad = fmt.Sprintf("INSERT of 150 rows into %d reported success; the table has %d rows", nrows, len(sel.Rows))
			}
		default:
			if len(sel.Rows) != 0 {
				bad = fmt.Sprintf("DELETE of all rows reported success; %d rows are still returned", len(sel.Rows))
			}
		}
		if bad != "" {
			c.Violation("C16:saturated-cache:accepted-statement-without-effect:"+pr.kind, fmt.Sprintf("[cache of %d pages, dirty set larger] %s", capPages, bad), map[string]interface{}{"capacity": capPages, "rows": nrows, "statement": clip(string(s.ops[pr.stmt].SQL), 120), "observed": pr.kind})
			return
		}
	}
}
