package main

import "os"

func removeAll(d string) { os.RemoveAll(d) }
