package main

import (
	"fmt"
	"os"
	"path/filepath"
	"strconv"
	"time"

	"verif/harness/internal/core"
	"verif/harness/internal/model"
	"verif/harness/proto"
)

func init() {
	checks["C04"] = checkC04
}

const c04KnownClass = "C04:torn-flush-with-page-allocation"

type flushInfo struct {
	idx        int
	op         int    // driver op during which the flush ran
	trigger    string // timer create close recovery
	diskFree   uint64 // next-free-page offset in the file header when the flush began
	pages      []uint64
	events     []proto.Event // page/header events in order
	allocating bool
}

// groupFlushes turns the event log of an armed run into flushes.
func groupFlushes(events []proto.Event, trigger func(op int) string) []*flushInfo {
	var out []*flushInfo
	var cur *flushInfo
	for _, e := range events {
		switch e.K {
		case "flushBegin":
			cur = &flushInfo{idx: e.Stmt, op: int(e.G), diskFree: e.A, trigger: trigger(int(e.G))}
			out = append(out, cur)
		case "flushEnd":
			cur = nil
		case "page", "header":
			if cur == nil {
				continue
			}
			cur.events = append(cur.events, e)
			if e.K == "page" {
				cur.pages = append(cur.pages, e.Off)
				if e.Off >= cur.diskFree {
					cur.allocating = true
				}
			}
		}
	}
	return out
}

// oldPageWritten: before write number k of the flush, has a page that existed
// before the flush (below the allocation frontier the file header names)
// already been written? Only then can the file hold a reference to a page
// that is not there yet.
func oldPageWritten(f *flushInfo, k int) bool {
	for _, e := range f.events[:k] {
		if e.K == "page" && e.Off < f.diskFree {
			return true
		}
	}
	return false
}

func checkC04(c *core.Ctx) []core.Floor {
	c.Level = "fault_enumeration"
	c.Rule = "seeded DDL/DML histories with explicit (timer-equivalent) flushes, CREATE TABLE's flush, close's flush, the flush of a CREATE DATABASE issued in mid-history (one run in three) and recovery's own flush; a crash image is taken immediately before EVERY page write and before the header write of EVERY flush (page order = the engine's map iteration order, each history is executed several times to observe different orders). Each image is recovered in a fresh process; every acknowledged table must be exact (a table whose CREATE was in flight is not judged). Second level: crash images are recovered with the hooks armed, giving images inside recovery's own flush. Images of one class are recorded but not judged (known finding, DESIGN.md): a flush that carries a page allocated since the last completed header write, cut after at least one write of a page that existed before (a cut after writes of new pages only leaves the old tree untouched and is judged). Independently of the hooks, one history in ten (six in the thorough tier) is re-run under strace once per write call it makes on the data file, strace delivering SIGKILL on entry to that call (crash points at system-call level: a write that bypasses the hooked call sites is a crash point here all the same); what is left is recovered and judged in the same way. Distinct = image; non-trivial = at least one page of the flush had been written and at least one write was still missing."
	c.Assume = []string{"process-death crash model (completed writes survive; no torn page writes)", "page orders are those the engine produced in the executed runs; orders never produced are not explored"}
	drv := mustDriver(c, false)
	straceOK = straceWorks(c, drv)
	n, reps := 150, 3
	if os.Getenv("C04_N") != "" {
		n, _ = strconv.Atoi(os.Getenv("C04_N"))
	}
	if !core.Quick(c) {
		n, reps = 2500, 6
	}
	var hists []*crashHist
	tr := core.NewRand(core.SubSeed(c.Seed, "C04T", 0))
	for rep := 1; rep < 3; rep++ {
		for _, t := range crashTemplates(tr) {
			if t.timerOnly || t.prepare != nil {
				// thousands of page writes per flush, an image before each: C02
				// runs this template against the real timer instead
				continue
			}
			t.idx = 9000000 + len(hists)
			t.schedule(tr, rep)
			hists = append(hists, t)
		}
	}
	for i := 0; i < n; i++ {
		h := buildCrashHist(c, i)
		if len(h.stmts) > 30 {
			h.stmts = h.stmts[:30]
		}
		r := core.NewRand(core.SubSeed(c.Seed, "C04S", i))
		h.schedule(r, 1+i%2) // always / mixed: there must be flushes
		hists = append(hists, h)
	}
	core.ParallelFor(len(hists)*reps, c.Workers, func(i int) {
		runFlushCrashHist(c, drv, hists[i/reps], i%reps)
	})
	floors := []core.Floor{}
	if straceOK {
		floors = append(floors, core.Floor{Key: "syscall_kills", Min: 200}, core.Floor{Key: "images_syscall_kill_timer_middle", Min: 10}, core.Floor{Key: "images_syscall_kill_timer_header", Min: 10})
	}
	return append(floors, []core.Floor{
		{Key: "images_verified", Min: 2000},
		{Key: "images_timer_first", Min: 10}, {Key: "images_timer_middle", Min: 10}, {Key: "images_timer_header", Min: 10},
		{Key: "images_create_first", Min: 10}, {Key: "images_create_middle", Min: 10}, {Key: "images_create_header", Min: 10},
		{Key: "images_close_first", Min: 5}, {Key: "images_close_header", Min: 5},
		{Key: "images_recovery_first", Min: 5}, {Key: "images_recovery_middle", Min: 5}, {Key: "images_recovery_header", Min: 5},
		{Key: "flushes_with_root_move", Min: 1}, {Key: "second_level_images", Min: 20},
		{Key: "judged_images", Min: 1000},
	}...)
}

func position(f *flushInfo, k int) string {
	switch {
	case k == 0:
		return "first"
	case f.events[k].K == "header":
		return "header"
	}
	return "middle"
}

func runFlushCrashHist(c *core.Ctx, drv string, ch *crashHist, rep int) {
	if core.Quick(c) && ch.name == "internal-root-split" && rep > 0 {
		// thousands of images of a megabyte file per run: once is enough for
		// the quick tier (two schedules), the thorough tier repeats it
		return
	}
	dir := c.CaseDir("c04")
	defer removeAll(dir)
	var s script
	type meta struct {
		kind string
		i    int
	}
	var mt []meta
	add := func(op proto.Op, m meta) int { mt = append(mt, m); return s.add(op) }
	add(proto.Op{K: "cfg", N: 1}, meta{kind: "other"})
	add(proto.Op{K: "init"}, meta{kind: "other"})
	add(proto.Op{K: "sql", SQL: "CREATE DATABASE d1"}, meta{kind: "other"})
	add(proto.Op{K: "sql", SQL: "USE d1"}, meta{kind: "other"})
	if ch.nextFree > 0 {
		add(proto.Op{K: "setnextfree", N: int(ch.nextFree)}, meta{kind: "other"})
		c.Count("history_runs_in_a_data_file_around_or_beyond_4GiB", 1)
	}
	add(proto.Op{K: "arm", S: "page", Dir: filepath.Join(dir, "arm"), DB: "d1"}, meta{kind: "other"})
	lastStmtAt := map[int]int{} // op id -> index of the last acknowledged statement before it completes
	mkdbAfter := -1
	if (ch.idx+rep)%3 == 0 && len(ch.stmts) > 2 {
		mkdbAfter = (ch.idx*7 + rep) % (len(ch.stmts) - 1)
	}
	for i, st := range ch.stmts {
		id := add(proto.Op{K: "stmt", Stmt: st}, meta{kind: "stmt", i: i})
		lastStmtAt[id] = i - 1
		add(proto.Op{K: "dump"}, meta{kind: "dump", i: i})
		if mkdbAfter == i {
			// another database is created in the middle of the history: its
			// own flush is a flush like any other - a crash inside it must
			// not keep the system from starting, nor touch the first database
			id := add(proto.Op{K: "sql", SQL: proto.Text(fmt.Sprintf("CREATE DATABASE extra%d", ch.idx%7))}, meta{kind: "mkdb", i: i})
			lastStmtAt[id] = i
		}
		if ch.flush[i] {
			id := add(proto.Op{K: "flush"}, meta{kind: "flush", i: i})
			lastStmtAt[id] = i
		}
		if ch.reopen[i] || i == len(ch.stmts)-1 {
			id := add(proto.Op{K: "close"}, meta{kind: "close", i: i})
			lastStmtAt[id] = i
			if i < len(ch.stmts)-1 {
				add(proto.Op{K: "session"}, meta{kind: "other"})
				add(proto.Op{K: "sql", SQL: "USE d1"}, meta{kind: "other"})
			}
		}
	}
	disarm := add(proto.Op{K: "disarm"}, meta{kind: "other"})
	out := core.RunScript(drv, dir, s.ops, 180*time.Second)
	if out.Died {
		c.Inconclusive("phase1", fmt.Sprintf("history %d died at op %d: %s", ch.idx, out.LastBeg, core.FatalTail(out.Stderr)))
		return
	}
	m := model.NewDB()
	grave := model.Graveyard{}
	snaps := map[int]*model.DB{-1: m.Clone()}
	for k, r := range out.Res {
		if r.Failed() {
			c.Inconclusive("phase1", fmt.Sprintf("history %d: op %s failed uncrashed: %s%s", ch.idx, s.ops[k].K, r.Err, r.Panic))
			return
		}
		switch mt[k].kind {
		case "stmt":
			if f, _, _, err := m.Apply(ch.stmts[mt[k].i]); f != "" || err != nil {
				c.Inconclusive("model", "statement rejected by model")
				return
			}
		case "dump":
			if df := m.CheckDump("C04:phase1", r.Tables, grave, true); df != nil {
				c.Inconclusive("phase1", "uncrashed run differs from the model (C01's business): "+df.What)
				return
			}
			snaps[mt[k].i] = m.Clone()
		}
	}
	flushes := groupFlushes(out.Res[disarm].Events, func(op int) string {
		switch mt[op].kind {
		case "stmt":
			return "create"
		case "close":
			return "close"
		case "mkdb":
			return "createdb"
		}
		return "timer"
	})
	for _, f := range flushes {
		if f.trigger == "createdb" {
			// the pages of this flush belong to the new database's file: the
			// first database's allocation frontier says nothing about them
			f.allocating = false
		}
	}
	var stmtTexts []string
	for _, st := range ch.stmts {
		stmtTexts = append(stmtTexts, clip(model.RenderStmt(st, model.Plain), 300))
	}
	var jobs []*crashJob
	var secondLevelSrc []*crashJob
	// images of the known class are recovered for the record in one history
	// run out of sixteen (quick) / four (thorough) only: most of them end in a
	// fatal stack overflow that costs seconds of system time each
	knownSampled := 0
	sampleEvery := 16
	if !core.Quick(c) {
		sampleEvery = 4
	}
	if (ch.idx*7+rep)%sampleEvery != 0 {
		knownSampled = 1 << 30
	}
	for _, f := range flushes {
		if f.allocating {
			c.Count("flushes_allocating", 1)
		} else {
			c.Count("flushes_plain", 1)
		}
		c.Count("flushes_"+f.trigger, 1)
		last := lastStmtAt[f.op]
		for k, e := range f.events {
			pos := position(f, k)
			j := &crashJob{
				dir:      filepath.Join(dir, "arm", fmt.Sprintf("e%d", e.Seq)),
				cands:    []*model.DB{snaps[last]},
				label:    f.trigger + "_" + pos,
				noSecond: false,
				replay: map[string]interface{}{"history": ch.idx, "template": ch.name, "flush_class": ch.class, "run": rep, "statements": stmtTexts[:last+1+btoi(f.trigger == "create")], "create_database_issued_after_statement": mkdbAfter,
					"flush_trigger": f.trigger, "flush_index": f.idx, "writes_of_this_flush": f.events, "crash_before_write": k, "header_next_free_on_disk": f.diskFree,
					"how": "run the statements with the timer off, flushing where the history says; kill -9 immediately before write number crash_before_write of the named flush (page order as listed); then InitStorage"},
			}
			if f.trigger == "create" {
				j.ignore = ch.stmts[last+1].Table
			}
			if f.allocating && pos == "middle" && !oldPageWritten(f, k) {
				// only pages beyond the old allocation frontier have been
				// written: nothing in the file refers to them yet, the old
				// tree is intact - not the known class, judged like any image
				c.Count("images_allocating_flush_cut_with_only_new_pages_written", 1)
			}
			if f.allocating && pos == "middle" && oldPageWritten(f, k) {
				j.classSig = c04KnownClass
				c.Count("known_class_images", 1)
				// recorded, not judged: recover only a sample (each fatal
				// stack overflow costs seconds) to keep the class visible
				if knownSampled >= 2 {
					continue
				}
				knownSampled++
			}
			jobs = append(jobs, j)
			if k > 0 && len(secondLevelSrc) < 2 && !f.allocating {
				secondLevelSrc = append(secondLevelSrc, j)
			}
		}
	}
	rootMoves := 0
	for _, f := range flushes {
		if f.allocating && f.trigger != "create" {
			rootMoves++
		}
	}
	c.Count("flushes_with_root_move", int64(rootMoves)) // flushes carrying new pages outside CREATE TABLE
	// second level: crash inside the flush that ends recovery. Pristine copies
	// of up to 3 judged images are recovered with the hooks armed.
	r := core.NewRand(core.SubSeed(c.Seed, "C04L2", ch.idx*10+rep))
	var jobs2 []*crashJob
	if len(jobs) > 0 {
		for k := 0; k < 3; k++ {
			sj := jobs[r.Intn(len(jobs))]
			if sj.classSig != "" {
				continue
			}
			sd := filepath.Join(dir, fmt.Sprintf("src2-%d", k))
			if err := core.CopyTree(sj.dir, sd); err != nil {
				c.Inconclusive("harness", "copy failed: "+err.Error())
				continue
			}
			var s2 script
			s2.add(proto.Op{K: "chdir", Dir: sd})
			s2.cfg(true, 0)
			s2.add(proto.Op{K: "arm", S: "page", Dir: filepath.Join(sd, "arm2"), DB: "d1"})
			initOp := s2.k("init")
			dis := s2.k("disarm")
			o2 := core.RunScript(drv, dir, s2.ops, 60*time.Second)
			if o2.Died || o2.Res[initOp].Failed() || o2.Res[dis].Failed() {
				// the first-level verification of the same image reports it
				continue
			}
			fl2 := groupFlushes(o2.Res[dis].Events, func(int) string { return "recovery" })
			for _, f := range fl2 {
				c.Count("flushes_recovery", 1)
				for k2, e := range f.events {
					j := &crashJob{
						dir:    filepath.Join(sd, "arm2", fmt.Sprintf("e%d", e.Seq)),
						cands:  sj.cands,
						ignore: sj.ignore,
						label:  "recovery_" + position(f, k2),
						replay: map[string]interface{}{"first_crash": sj.replay, "second_crash": map[string]interface{}{"inside": "the flush that ends recovery of the first crash", "writes_of_this_flush": f.events, "crash_before_write": k2, "header_next_free_on_disk": f.diskFree}},
					}
					if f.allocating && position(f, k2) == "middle" && oldPageWritten(f, k2) {
						j.classSig = c04KnownClass
						c.Count("known_class_images", 1)
						if knownSampled >= 3 {
							continue
						}
						knownSampled++
					}
					jobs2 = append(jobs2, j)
					c.Count("second_level_images", 1)
				}
			}
		}
	}
	jobs = append(jobs, jobs2...)
	// crash points at the level of system calls (strace delivers the kill):
	// independent of the hooks, so a write the hooks do not see is a crash
	// point here all the same
	every, maxKills := 10, 150
	if !core.Quick(c) {
		every, maxKills = 6, 500
	}
	if straceOK && rep == 0 && ch.name != "internal-root-split" && ch.idx%every == 0 {
		kops := make([]proto.Op, len(s.ops))
		copy(kops, s.ops)
		firstStmt := -1
		for k := range kops {
			switch kops[k].K {
			case "arm", "disarm", "dump":
				kops[k] = proto.Op{K: "stats", ID: kops[k].ID}
			case "stmt":
				if firstStmt < 0 {
					firstStmt = k
				}
			}
		}
		flushByOp := map[int]*flushInfo{}
		for _, f := range flushes {
			if f.trigger != "createdb" {
				flushByOp[f.op] = f
			}
		}
		sk := syscallKillsTbl(c, drv, dir, ch, kops, firstStmt, flushByOp, lastStmtAt,
			func(last int) []*model.DB { return []*model.DB{snaps[last]} },
			func(op int) string {
				if mt[op].kind == "stmt" && ch.stmts[mt[op].i].Kind == "create" {
					return ch.stmts[mt[op].i].Table
				}
				return ""
			}, stmtTexts, maxKills)
		c.Count("histories_re_run_under_strace", 1)
		jobs = append(jobs, sk...)
	}
	verifyCrashJobs(c, "C04", drv, dir, jobs)
	for _, j := range jobs {
		if j.classSig == "" {
			c.Count("judged_images", 1)
		} else {
			c.Count("known_class_images_recovered", 1)
			if j.failed {
				c.Count("known_failed_"+j.label, 1)
				c.Count("known_class_images_failed", 1)
			} else {
				c.Count("known_class_images_survived", 1)
			}
		}
		c.Eval(j.dir, j.label[len(j.label)-5:] != "first")
	}
	c.Sample(2, map[string]interface{}{"history": ch.idx, "flush_class": ch.class, "flushes": len(flushes), "images": len(jobs), "example_flush": func() interface{} {
		if len(flushes) > 0 {
			return map[string]interface{}{"trigger": flushes[0].trigger, "pages_in_write_order": flushes[0].pages, "allocating": flushes[0].allocating}
		}
		return nil
	}()})
}

func btoi(b bool) int {
	if b {
		return 1
	}
	return 0
}
