package main

import (
	"bufio"
	"fmt"
	"os"
	"os/exec"
	"path/filepath"
	"regexp"
	"strconv"
	"strings"
	"sync"
	"time"

	"verif/harness/internal/core"
	"verif/harness/internal/model"
	"verif/harness/proto"
)

// Crash points at the level of system calls. The hooks of C03 / C04 sit in
// front of the write calls mkdb has today; a change that writes through
// another call site would have crash points the hooks do not enumerate. Here
// the driver runs under strace, restricted to one file, and strace delivers
// SIGKILL on entry to the n-th write / pwrite64 / fsync on that file: the call
// does not take effect, everything before it did. What is left in the
// directory is a real crash image; which statement was in flight is known
// from the driver's own output (it echoes an operation before executing it).

type sysCall struct {
	name   string // write pwrite64 fsync
	length int64
	off    int64 // pwrite64 only
	killed bool  // the call the signal was delivered on (it did not run)
}

var straceLine = regexp.MustCompile(`^\d+\s+(write|pwrite64|fsync)\((.*?)(\)\s+= (\?|-?\d+)| <unfinished \.\.\.>)`)

func haveStrace() bool {
	_, err := exec.LookPath("strace")
	return err == nil
}

// runKilledAt runs ops in a driver under strace; the n-th traced call on path
// (counted by strace per thread of the driver and per system call name: sysname
// says which call is counted) is answered with SIGKILL.
// killed reports whether the driver was killed that way.
func runKilledAt(drv, cwd string, ops []proto.Op, path, sysname string, n int, timeout time.Duration) (out *core.RunOut, calls []sysCall, killed bool) {
	logf := filepath.Join(cwd, ".strace.log")
	via := []string{"strace", "-f", "-qq", "-s", "0", "-o", logf, "-P", path, "-e", "trace=write,pwrite64,fsync",
		"-e", fmt.Sprintf("inject=%s:signal=SIGKILL:when=%d", sysname, n)}
	out = core.RunScriptVia(via, drv, cwd, ops, timeout, "VERIF_LOCK_THREAD=1")
	f, err := os.Open(logf)
	if err != nil {
		return out, nil, false
	}
	defer f.Close()
	defer os.Remove(logf)
	sc := bufio.NewScanner(f)
	sc.Buffer(make([]byte, 1<<20), 1<<20)
	for sc.Scan() {
		line := sc.Text()
		if strings.Contains(line, "+++ killed by SIGKILL") {
			killed = true
		}
		m := straceLine.FindStringSubmatch(line)
		if m == nil {
			continue
		}
		c := sysCall{name: m[1]}
		args := strings.Split(m[2], ",")
		num := func(i int) int64 {
			if i < 0 || i >= len(args) {
				return -1
			}
			v, err := strconv.ParseInt(strings.TrimSpace(args[i]), 10, 64)
			if err != nil {
				return -1
			}
			return v
		}
		switch c.name {
		case "write":
			c.length = num(len(args) - 1)
		case "pwrite64":
			c.length, c.off = num(len(args)-2), num(len(args)-1)
		}
		calls = append(calls, c)
	}
	if killed && len(calls) > 0 {
		// the signal is delivered on entry to the call that reached the
		// count: the last call the log shows is the one that did not run
		calls[len(calls)-1].killed = true
	}
	return out, calls, killed
}

// straceWorks: one tiny run to see that tracing and injection work in this
// sandbox (ptrace may be forbidden); the result is reported in the evidence.
func straceWorks(c *core.Ctx, drv string) bool {
	if !haveStrace() {
		c.Count("strace_not_installed", 1)
		return false
	}
	dir := c.CaseDir("stprobe")
	defer removeAll(dir)
	var s script
	s.open(true, 0, "d1", true)
	s.sql("CREATE TABLE t (a int)")
	tbl := filepath.Join(dir, "data", "d1", "tbl")
	_, calls, killed := runKilledAt(drv, dir, s.ops, tbl, "pwrite64", 2, 60*time.Second)
	if !killed || len(calls) < 2 {
		c.Count("strace_injection_does_not_work_here", 1)
		return false
	}
	return true
}

var straceOK bool

// syscallKillsTbl re-runs a C04 history under strace once per write call on
// the data file, each run killed on entry to its n-th call, and returns the
// leftover directories as crash jobs (those whose state the known class of
// C04 does not cover). ops is the script of the hook-armed run with the hook
// and dump operations replaced by cheap ones, so that operation numbers - and
// with them the flushes found by the armed run - line up.
func syscallKillsTbl(c *core.Ctx, drv, dir string, ch *crashHist, ops []proto.Op, firstStmtOp int, flushByOp map[int]*flushInfo, lastStmtAt map[int]int, cands func(last int) []*model.DB, ignore func(op int) string, stmtTexts []string, maxKills int) []*crashJob {
	var jobs []*crashJob
	// how many write calls the history makes on the file: one run that is not killed
	total := 0
	{
		kd := filepath.Join(dir, "sk0")
		os.MkdirAll(kd, 0755)
		out, calls, killed := runKilledAt(drv, kd, ops, filepath.Join(kd, "data", "d1", "tbl"), "pwrite64", 65535, 120*time.Second)
		removeAll(kd)
		if killed || out.Died {
			c.Inconclusive("strace", fmt.Sprintf("history %d under strace did not run to its end: %s", ch.idx, core.FatalTail(out.Stderr)))
			return nil
		}
		total = len(calls)
		c.Count("write_calls_on_the_data_file_seen_by_strace", int64(total))
	}
	if total > maxKills {
		total = maxKills
	}
	var mu sync.Mutex
	core.ParallelFor(total, 6, func(i int) {
		n := i + 1
		kd := filepath.Join(dir, fmt.Sprintf("sk%d", n))
		if err := os.MkdirAll(kd, 0755); err != nil {
			c.Inconclusive("harness", err.Error())
			return
		}
		tbl := filepath.Join(kd, "data", "d1", "tbl")
		out, calls, killed := runKilledAt(drv, kd, ops, tbl, "pwrite64", n, 120*time.Second)
		if !killed {
			removeAll(kd)
			c.Inconclusive("strace", fmt.Sprintf("history %d: write call %d of %d was not reached under strace", ch.idx, n, total))
			return
		}
		j := classifySyscallKill(c, ch, kd, n, out, calls, ops, firstStmtOp, flushByOp, lastStmtAt, cands, ignore, stmtTexts)
		if j != nil {
			mu.Lock()
			jobs = append(jobs, j)
			mu.Unlock()
		}
	})
	return jobs
}

func classifySyscallKill(c *core.Ctx, ch *crashHist, kd string, n int, out *core.RunOut, calls []sysCall, ops []proto.Op, firstStmtOp int, flushByOp map[int]*flushInfo, lastStmtAt map[int]int, cands func(last int) []*model.DB, ignore func(op int) string, stmtTexts []string) *crashJob {
	{
		c.Count("syscall_kills", 1)
		k := out.LastBeg
		last, known := lastStmtAt[k]
		if k < firstStmtOp || !known {
			c.Count("syscall_kills_before_the_first_statement_or_in_another_database", 1)
			removeAll(kd)
			return nil
		}
		// the writes of the flush that was cut: those after the last header write
		var cur []sysCall
		var kc *sysCall
		for i := range calls {
			cl := calls[i]
			if cl.name != "pwrite64" {
				continue
			}
			if cl.killed {
				kc = &calls[i]
				break
			}
			if cl.off == 0 {
				cur = nil
			} else {
				cur = append(cur, cl)
			}
		}
		if kc == nil {
			c.Count("syscall_kills_on_a_call_other_than_pwrite", 1)
			removeAll(kd)
			return nil
		}
		pos := "middle"
		switch {
		case len(cur) == 0:
			pos = "first"
		case kc.off == 0:
			pos = "header"
		}
		f := flushByOp[k]
		trigger := "unknown"
		if f != nil {
			trigger = f.trigger
		}
		if pos == "middle" {
			if f == nil {
				c.Count("syscall_kills_not_classified", 1)
				removeAll(kd)
				return nil
			}
			old := false
			for _, cl := range cur {
				if uint64(cl.off) < f.diskFree {
					old = true
				}
			}
			if f.allocating && old {
				c.Count("syscall_kills_in_the_known_class", 1)
				removeAll(kd)
				return nil
			}
		}
		var written []int64
		for _, cl := range cur {
			written = append(written, cl.off)
		}
		return &crashJob{
			dir: kd, cands: cands(last), ignore: ignore(k), label: "syscall_kill_" + trigger + "_" + pos, real: true,
			replay: map[string]interface{}{"history": ch.idx, "template": ch.name, "flush_class": ch.class, "statements": stmtTexts[:last+1],
				"operation_in_flight": ops[k].K, "page_offsets_written_by_the_cut_flush": written, "killed_on_entry_to_pwrite_at_offset": kc.off,
				"how": "run the statements with the timer off under strace -f -P data/d1/tbl -e inject=pwrite64:signal=SIGKILL:when=" + fmt.Sprint(n) + ", then InitStorage on what is left"},
		}
	}
}

// syscallKillsWal: the same for the log file (C03). stmtOf gives, for a driver
// operation, the statement it executes and the model state before it.
func syscallKillsWal(c *core.Ctx, drv, dir string, histIdx int, ops []proto.Op, stmtOf func(op int) (*proto.Stmt, *model.DB), seed uint64, maxKills int) []*crashJob {
	var jobs []*crashJob
	total, nwrite, nsync := 0, 0, 0
	{
		kd := filepath.Join(dir, "sk0")
		os.MkdirAll(kd, 0755)
		out, calls, killed := runKilledAt(drv, kd, ops, filepath.Join(kd, "data", "d1", "wal"), "write", 65535, 120*time.Second)
		removeAll(kd)
		if killed || out.Died {
			c.Inconclusive("strace", fmt.Sprintf("armed history %d under strace did not run to its end: %s", histIdx, core.FatalTail(out.Stderr)))
			return nil
		}
		for _, cl := range calls {
			if cl.name == "fsync" {
				nsync++
			} else {
				nwrite++
			}
		}
		total = len(calls)
		c.Count("write_and_fsync_calls_on_the_log_seen_by_strace", int64(total))
	}
	if total > maxKills {
		total = maxKills
	}
	var mu sync.Mutex
	core.ParallelFor(total, 6, func(i int) {
		// strace counts each system call name on its own: the writes first,
		// then the fsyncs
		n, sysname := i+1, "write"
		if n > nwrite {
			n, sysname = n-nwrite, "fsync"
		}
		kd := filepath.Join(dir, fmt.Sprintf("sk%d", i+1))
		os.MkdirAll(kd, 0755)
		out, calls, killed := runKilledAt(drv, kd, ops, filepath.Join(kd, "data", "d1", "wal"), sysname, n, 120*time.Second)
		if !killed || len(calls) == 0 {
			removeAll(kd)
			c.Inconclusive("strace", fmt.Sprintf("armed history %d: %s call %d on the log (%d writes, %d fsyncs) was not reached under strace", histIdx, sysname, n, nwrite, nsync))
			return
		}
		c.Count("syscall_kills", 1)
		st, pre := stmtOf(out.LastBeg)
		if st == nil {
			c.Count("syscall_kills_outside_a_statement", 1)
			removeAll(kd)
			return
		}
		fail, _, rowOps, err := pre.Plan(st)
		if fail != "" || err != nil {
			c.Inconclusive("model", "statement under strace rejected by the model")
			removeAll(kd)
			return
		}
		nOps := len(rowOps)
		cands := make([]*model.DB, nOps+1)
		for j := 0; j <= nOps; j++ {
			cm := pre.Clone()
			cm.ApplyOps(st, rowOps, j)
			cands[nOps-j] = cm
		}
		kc := calls[len(calls)-1]
		r := core.NewRand(seed + uint64(i))
		j := &crashJob{
			dir: kd, cands: cands, cont: r.Range(3, 6), real: true, seed: seed + uint64(i),
			label: fmt.Sprintf("syscall_kill_%s_before_%s", st.Kind, kc.name),
			replay: map[string]interface{}{"history": histIdx, "statement_in_flight": clip(model.RenderStmt(st, model.Plain), 400), "row_operations": nOps,
				"killed_on_entry_to": kc.name, "bytes": kc.length,
				"how": "run history ARMED/<history> of this seed with the timer off under strace -f -P data/d1/wal -e inject=" + sysname + ":signal=SIGKILL:when=" + fmt.Sprint(n) + ", then InitStorage on what is left"},
		}
		mu.Lock()
		jobs = append(jobs, j)
		mu.Unlock()
	})
	return jobs
}
