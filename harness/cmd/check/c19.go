package main

import (
	"bytes"
	"context"
	"encoding/csv"
	"encoding/hex"
	"encoding/json"
	"fmt"
	"io"
	"os"
	"os/exec"
	"path/filepath"
	"strconv"
	"strings"
	"time"

	"verif/harness/internal/core"
	"verif/harness/internal/model"
	"verif/harness/proto"
)

func init() {
	checks["C19"] = checkC19
}

type c19Col struct {
	Name string `json:"n"`
	Type string `json:"t"`
	Len  int64  `json:"len"`
}

type c19Case struct {
	Cols    []c19Col `json:"cols"`
	DstCols []string `json:"dst"`
	SrcCols []int    `json:"src"`
	Sep     string   `json:"sep"`
	CSVHex  string   `json:"csv"`
	csv     []byte
}

type c19Result struct {
	Events string   `json:"events"`
	Errors []string `json:"errors"`
	Types  []int    `json:"types"`
	Rows   []struct {
		ID   uint32   `json:"id"`
		Vals []string `json:"v"`
	} `json:"rows"`
	Err   string `json:"err"`
	Panic string `json:"panic"`
}

func c19Field(r *core.Rand, typ string, sep string, stats map[string]int) string {
	q := func(s string) string { // quote when needed
		if strings.ContainsAny(s, sep+"\"\n\r") || r.Chance(1, 6) {
			return `"` + strings.ReplaceAll(s, `"`, `""`) + `"`
		}
		return s
	}
	if r.Chance(1, 8) {
		stats[typ+"_null"]++
		return `\N`
	}
	switch typ {
	case "int":
		switch r.Intn(10) {
		case 0:
			stats["int_invalid"]++
			return []string{"abc", "1.5", "", "12a", "0x10", "1e3"}[r.Intn(6)]
		case 1:
			stats["int_invalid"]++
			return []string{"2147483648", "-2147483649", "99999999999999999999"}[r.Intn(3)]
		case 2:
			stats["int_valid"]++
			return []string{"2147483647", "-2147483648", "0", "-1"}[r.Intn(4)]
		}
		stats["int_valid"]++
		return strconv.Itoa(r.Intn(100000) - 500)
	case "bigint":
		switch r.Intn(10) {
		case 0:
			stats["bigint_invalid"]++
			return []string{"abc", "1.5", "", "9223372036854775808", "-9223372036854775809"}[r.Intn(5)]
		case 1:
			stats["bigint_valid"]++
			return []string{"9223372036854775807", "-9223372036854775808", "2147483648", "0"}[r.Intn(4)]
		}
		stats["bigint_valid"]++
		return strconv.FormatInt(int64(r.U64()>>1)-(1<<62), 10)
	case "boolean":
		if r.Chance(1, 8) {
			stats["boolean_invalid"]++
			// incl. spellings that only a Unicode case folding or width
			// folding would take for true / false
			return []string{"yes", "2", "", "tru", "nope", "falſe", "FALſE", "ｔｒｕｅ", "ｆ", "true\u200b", "tr\u00fce", "１"}[r.Intn(12)]
		}
		stats["boolean_valid"]++
		return []string{"1", "true", "t", "0", "false", "f", "TRUE", "False", "T", "F"}[r.Intn(10)]
	}
	stats["varchar_valid"]++
	pool := []string{"", "plain", "with space", " lead", "  two leading", "trail ", "\tx", "comma,inside", "semi;colon", "quote\"inside", "line\nbreak", "tab\there", "é ü", "'single'", "NULL", "N", `\n`, "pipe|bar", strings.Repeat("x", 50),
		// texts next to the NULL marker (only the two characters \N mean NULL; everything else is text and is stored as it stands)
		`\\N`, `\\\N`, `x\N`, `\N `, `\NULL`, `\\n`, `\`, `\\`,
		// bytes that are not valid UTF-8 (a Latin-1 file, a UTF-16 byte order mark, a cut-off sequence): the column stores bytes
		"caf\xe9", "\xff\xfe", "ok\xc3", "\x80", "a\xf0\x9f\x98", "\ufffd", "\ufeffbom", "nul\x00byte"}
	s := pool[r.Intn(len(pool))]
	if r.Chance(1, 40) {
		stats["varchar_oversize"]++
		s = strings.Repeat("y", 380+r.Intn(60))
	}
	return q(s)
}

func genC19(r *core.Rand, stats map[string]int) c19Case {
	types := []string{"int", "bigint", "varchar", "boolean"}
	nc := r.Range(1, 5)
	var cs c19Case
	mixedNames, nameOff := r.Chance(1, 3), r.Intn(8)
	namePool := []string{"Name", "isActive", "val", "ID", "Val", "c_1", "VAL", "Id"}
	for i := 0; i < nc; i++ {
		t := types[r.Intn(4)]
		c := c19Col{Name: fmt.Sprintf("c%d", i), Type: t}
		if mixedNames {
			// identifiers keep their case in mkdb: upper-case letters, and
			// columns whose names differ in case only
			c.Name = namePool[(nameOff+i)%len(namePool)]
		}
		if t == "varchar" {
			c.Len = 255
		}
		cs.Cols = append(cs.Cols, c)
	}
	// mapping: a subset of the table's columns in random order, each fed
	// from some CSV column (source indexes may repeat)
	perm := make([]int, nc)
	for i := range perm {
		perm[i] = i
	}
	for i := nc - 1; i > 0; i-- {
		j := r.Intn(i + 1)
		perm[i], perm[j] = perm[j], perm[i]
	}
	nd := r.Range(1, nc)
	width := r.Range(nd, nd+2) // CSV columns per record
	// csvType[k]: the type the k-th CSV column is generated for
	csvType := make([]string, width)
	for k := range csvType {
		csvType[k] = types[r.Intn(4)]
	}
	for d := 0; d < nd; d++ {
		col := cs.Cols[perm[d]]
		src := r.Intn(width)
		// make the source column carry the destination's type (first mapping wins)
		if d == 0 || r.Chance(3, 4) {
			csvType[src] = col.Type
		}
		cs.DstCols = append(cs.DstCols, col.Name)
		cs.SrcCols = append(cs.SrcCols, src)
	}
	// a CSV column feeding two destinations of different types keeps the first type: the second sees unparsable text sometimes - a legitimate error path
	cs.Sep = []string{",", ";", "\t", "|", ",", ";", "§", "·", "→", "，"}[r.Intn(10)]
	nrec := r.Intn(40)
	if r.Chance(1, 10) {
		nrec = r.Range(100, 200)
	}
	var buf bytes.Buffer
	unterminatedUsed := false
	for i := 0; i < nrec; i++ {
		switch x := r.Intn(40); {
		case (i == 0 && r.Chance(1, 5)) || x == 5:
			// a record that looks like a header line: every mapped field is
			// the NAME of the column it is mapped to (upper or lower case),
			// the other fields are column names too. It is a record like any
			// other: stored where the columns take text, reported otherwise
			stats["record_of_column_names"]++
			f := make([]string, width)
			for j := range f {
				f[j] = cs.Cols[r.Intn(len(cs.Cols))].Name
			}
			for d, src := range cs.SrcCols {
				f[src] = cs.DstCols[d]
			}
			if r.Bool() {
				for j := range f {
					f[j] = strings.ToUpper(f[j])
				}
			}
			buf.WriteString(strings.Join(f, cs.Sep) + "\n")
		case x == 0:
			stats["record_short"]++
			k := r.Intn(width)
			var f []string
			for j := 0; j < k; j++ {
				f = append(f, c19Field(r, csvType[j], cs.Sep, stats))
			}
			buf.WriteString(strings.Join(f, cs.Sep) + "\n")
		case x == 1:
			stats["record_bare_quote"]++
			buf.WriteString("ab\"cd" + cs.Sep + "1\n")
		case x == 2:
			stats["record_text_after_quote"]++
			buf.WriteString("\"abc\"def" + cs.Sep + "1\n")
		case x == 3 && !unterminatedUsed && r.Chance(1, 4):
			stats["record_unterminated_quote"]++
			unterminatedUsed = true
			buf.WriteString("\"never closed" + cs.Sep + "1\n")
		case x == 4:
			stats["record_empty_line"]++
			buf.WriteString("\n")
		default:
			var f []string
			for j := 0; j < width; j++ {
				f = append(f, c19Field(r, csvType[j], cs.Sep, stats))
			}
			eol := "\n"
			if r.Chance(1, 10) {
				eol = "\r\n"
			}
			if i == nrec-1 && r.Bool() {
				eol = ""
			}
			buf.WriteString(strings.Join(f, cs.Sep) + eol)
		}
	}
	cs.csv = buf.Bytes()
	if r.Chance(1, 8) {
		// the input begins with U+FEFF (what a spreadsheet export starts
		// with): these three bytes belong to the first field of the first
		// record like any others
		cs.csv = append([]byte("\xef\xbb\xbf"), cs.csv...)
		stats["input_begins_with_a_byte_order_mark"]++
	}
	cs.CSVHex = hex.EncodeToString(cs.csv)
	return cs
}

// refImport is the reference: record fates and the rows that must be stored.
func refImport(cs c19Case) (events string, rows [][]proto.Val, causes []string) {
	rd := csv.NewReader(bytes.NewReader(cs.csv))
	rd.FieldsPerRecord = -1
	rd.Comma = []rune(cs.Sep)[0]
	maxIdx := 0
	for _, i := range cs.SrcCols {
		if i > maxIdx {
			maxIdx = i
		}
	}
	colByName := map[string]int{}
	mcols := make([]model.Col, len(cs.Cols))
	for i, c := range cs.Cols {
		colByName[c.Name] = i
		mcols[i] = model.Col{Name: c.Name, Type: c.Type, Len: c.Len}
	}
	var ev strings.Builder
	for {
		rec, err := rd.Read()
		if err == io.EOF {
			break
		}
		if err != nil {
			ev.WriteByte('e')
			causes = append(causes, "csv-syntax")
			if _, ok := err.(*csv.ParseError); ok {
				continue
			}
			break
		}
		if maxIdx >= len(rec) {
			ev.WriteByte('e')
			causes = append(causes, "short-record")
			continue
		}
		full := make([]proto.Val, len(cs.Cols))
		for i := range full {
			full[i] = proto.Null()
		}
		bad, rangeBad := "", ""
		for d, name := range cs.DstCols {
			f := rec[cs.SrcCols[d]]
			ci := colByName[name]
			if f == `\N` {
				full[ci] = proto.Null()
				continue
			}
			switch cs.Cols[ci].Type {
			case "int":
				v, err := strconv.ParseInt(f, 10, 64)
				if err != nil {
					bad = "unparsable-int"
				} else if v > 2147483647 || v < -2147483648 {
					// refused only once every field has been converted: a field
					// that cannot be parsed at all, further right, is reported first
					if rangeBad == "" {
						rangeBad = "int-out-of-range"
					}
				} else {
					full[ci] = proto.Int(v)
				}
			case "bigint":
				v, err := strconv.ParseInt(f, 10, 64)
				if err != nil {
					bad = "unparsable-bigint"
				} else {
					full[ci] = proto.Int(v)
				}
			case "boolean":
				switch strings.ToLower(f) {
				case "1", "true", "t":
					full[ci] = proto.Bool(true)
				case "0", "false", "f":
					full[ci] = proto.Bool(false)
				default:
					bad = "unparsable-boolean"
				}
			default:
				full[ci] = proto.Str(f)
			}
			if bad != "" {
				break
			}
		}
		if bad == "" {
			bad = rangeBad
		}
		if bad == "" && model.EncodedSize(mcols, full) > model.MaxRowSize {
			bad = "row-too-large"
		}
		if bad != "" {
			ev.WriteByte('e')
			causes = append(causes, bad)
			continue
		}
		ev.WriteByte('o')
		causes = append(causes, "stored")
		rows = append(rows, full)
	}
	return ev.String(), rows, causes
}

func checkC19(c *core.Ctx) []core.Floor {
	c.Rule = "destination tables of 1-5 columns over the four types (incl. BIGINT; a third of them with upper-case letters in the column names and names that differ in case only), column mappings (subsets, permutations, repeated source index), separators , ; tab | and the non-ASCII § · → ， (given through the tool's own -separator flag handling), streams of 0-200 records mixing valid fields, records made of the destination columns' own names (a would-be header line, first or anywhere), \\N markers, short records, bad quoting (bare quote, text after a closing quote, at most one never-closed quote), empty lines, unparsable and out-of-range numbers, unparsable booleans, oversized rows, quoted fields with separators / newlines / quotes inside, text that is not valid UTF-8 (Latin-1 bytes, a UTF-16 byte order mark, cut-off sequences) and NUL bytes; one input in eight begins with a UTF-8 byte order mark. The real makeConfig (flag values -> configuration) + colDataTypes + doBatchInsert run against a real database (in-package go test -overlay driver); both channels are drained in arrival order and the table is read back. Reference: encoding/csv configured like the importer (CSV syntax is the standard library's responsibility) + an independent conversion: one event per record in record order, #ok + #err = #records, stored rows = accepted records in input order with the mapped columns converted (INT/BIGINT decimal with range check, BOOLEAN from 1/true/t/0/false/f, VARCHAR verbatim, \\N -> NULL), unmapped columns NULL. In addition 32 (quick) / 640 (thorough) runs of the real csvimport BINARY end to end: database and table created through the engine in one process, the tool started with its command line flags and the CSV on standard input, the table read back by a third process; the stored rows and the number of '[line N]' error reports must be what the reference says, and the tool must exit normally. Distinct = (schema, mapping, CSV bytes); non-trivial = the stream contains at least one rejected and one accepted record."
	c.Assume = []string{"what a record is, is decided by encoding/csv with the importer's settings", "canonical number spellings only (optional leading minus, no plus sign, blanks or underscores)"}
	bin, err := buildOverlayTest(c, "cmd/csvimport", "csvimport_driver_test.go", "zz_verif_driver_test.go")
	if err != nil {
		fmt.Printf("BUILD-FAILED property=C19\n%v\n", err)
		c.Cleanup()
		os.Exit(3)
	}
	n := 600
	if !core.Quick(c) {
		n = 20000
	}
	batch := 100
	nb := (n + batch - 1) / batch
	core.ParallelFor(nb, c.Workers, func(bi int) {
		r := core.NewRand(core.SubSeed(c.Seed, "C19", bi))
		stats := map[string]int{}
		var cases []c19Case
		for i := 0; i < batch; i++ {
			cases = append(cases, genC19(r, stats))
		}
		for k, v := range stats {
			c.Count("gen_"+k, int64(v))
		}
		dir := c.CaseDir("c19")
		defer removeAll(dir)
		in, outp := filepath.Join(dir, "in.json"), filepath.Join(dir, "out.json")
		b, _ := json.Marshal(cases)
		os.WriteFile(in, b, 0644)
		msg, err := runOverlayTest(bin, dir, in, outp)
		ob, rerr := os.ReadFile(outp)
		if err != nil || rerr != nil {
			c.Violation("C19:driver-died", "the csvimport test process died: "+clip(msg, 600), map[string]interface{}{"batch": bi})
			return
		}
		var outs []c19Result
		if err := json.Unmarshal(ob, &outs); err != nil || len(outs) != len(cases) {
			c.Inconclusive("harness", "bad driver output")
			return
		}
		for i := range cases {
			judgeC19(c, cases[i], outs[i])
		}
	})
	checkC19EndToEnd(c)
	fl := []core.Floor{{Key: "streams", Min: 500}, {Key: "streams_equal", Min: 100}, {Key: "records", Min: 5000}, {Key: "e2e_runs", Min: 20}, {Key: "e2e_runs_equal", Min: 10}}
	for _, t := range []string{"int", "bigint", "boolean"} {
		fl = append(fl, core.Floor{Key: "gen_" + t + "_valid", Min: 20}, core.Floor{Key: "gen_" + t + "_invalid", Min: 20}, core.Floor{Key: "gen_" + t + "_null", Min: 20})
	}
	fl = append(fl, core.Floor{Key: "gen_varchar_valid", Min: 20}, core.Floor{Key: "gen_varchar_null", Min: 20}, core.Floor{Key: "gen_record_short", Min: 10}, core.Floor{Key: "gen_record_bare_quote", Min: 10})
	return fl
}

func judgeC19(c *core.Ctx, cs c19Case, o c19Result) {
	c.Count("streams", 1)
	var sch []string
	for _, cl := range cs.Cols {
		sch = append(sch, cl.Name+" "+cl.Type)
	}
	replay := map[string]interface{}{"table": strings.Join(sch, ", "), "dest_cols": cs.DstCols, "src_cols": cs.SrcCols, "separator": cs.Sep, "csv": clip(string(cs.csv), 3000), "events": o.Events, "errors": o.Errors}
	if o.Panic != "" {
		c.Violation("C19:panic", o.Panic, replay)
		return
	}
	if o.Err != "" {
		c.Violation("C19:setup-or-read-failed:"+errKind(o.Err), o.Err, replay)
		return
	}
	events, rows, causes := refImport(cs)
	replay["expected_events"] = events
	c.Count("records", int64(len(events)))
	for _, cause := range causes {
		c.Count("fate_"+cause, 1)
	}
	c.Eval(cs.CSVHex+strings.Join(cs.DstCols, ","), strings.Contains(events, "e") && strings.Contains(events, "o"))
	if len(o.Events) != len(events) {
		c.Violation("C19:record-accounting", fmt.Sprintf("%d records in the input, %d events reported (%d ok, %d errors)", len(events), len(o.Events), strings.Count(o.Events, "o"), strings.Count(o.Events, "e")), replay)
		return
	}
	if o.Events != events {
		i := 0
		for i < len(events) && events[i] == o.Events[i] {
			i++
		}
		kind := "valid-record-rejected"
		if events[i] == 'e' {
			kind = "invalid-record-accepted:" + causes[i]
		}
		c.Violation("C19:"+kind, fmt.Sprintf("record %d: expected %c (%s), importer reported %c", i+1, events[i], causes[i], o.Events[i]), replay)
		return
	}
	if len(o.Rows) != len(rows) {
		c.Violation("C19:stored-row-count", fmt.Sprintf("%d records accepted, %d rows stored", len(rows), len(o.Rows)), replay)
		return
	}
	for i, want := range rows {
		got := o.Rows[i].Vals
		for k := range want {
			if k >= len(got) || got[k] != want[k].Enc() {
				g := "<missing>"
				if k < len(got) {
					g = got[k]
				}
				typ := cs.Cols[k].Type
				sig := "C19:stored-value-differs:" + typ
				if g == "n" && !want[k].IsNull() {
					sig = "C19:value-stored-as-null:" + typ
				}
				c.Violation(sig, fmt.Sprintf("accepted record %d, column %s (%s): stored %s, expected %s", i+1, cs.Cols[k].Name, typ, g, want[k].Enc()), replay)
				return
			}
		}
		if i > 0 && o.Rows[i].ID <= o.Rows[i-1].ID {
			c.Violation("C19:row-order", "stored rows are not in input order", replay)
			return
		}
	}
	c.Count("streams_equal", 1)
	c.Sample(3, map[string]interface{}{"table": strings.Join(sch, ", "), "dest_cols": cs.DstCols, "src_cols": cs.SrcCols, "separator": cs.Sep, "csv_prefix": clip(string(cs.csv), 300), "events": events})
}

// ---------------------------------------------------------------------------
// end to end: the csvimport binary itself (flag parsing, main's reporting
// loop, process exit), between two engine processes that create the table and
// read it back.

func checkC19EndToEnd(c *core.Ctx) {
	drv := mustDriver(c, false)
	repo := os.Getenv("VERIF_REPO")
	if repo == "" {
		repo = "/repo"
	}
	tool := filepath.Join(c.Scratch, "csvimport-bin")
	cmd := exec.Command("go", "build", "-o", tool, "./cmd/csvimport")
	cmd.Dir = repo
	cmd.Env = core.GoEnv()
	if out, err := cmd.CombinedOutput(); err != nil {
		fmt.Printf("BUILD-FAILED property=C19\n%v\n%s\n", err, out)
		c.Cleanup()
		os.Exit(3)
	}
	n := 32
	if !core.Quick(c) {
		n = 640
	}
	core.ParallelFor(n, c.Workers, func(i int) {
		r := core.NewRand(core.SubSeed(c.Seed, "C19E2E", i))
		cs := genC19(r, map[string]int{})
		dir := c.CaseDir("c19e")
		defer removeAll(dir)
		var sch []string
		var defs []proto.ColDef
		for _, cl := range cs.Cols {
			sch = append(sch, cl.Name+" "+cl.Type)
			defs = append(defs, proto.ColDef{Name: cl.Name, Type: cl.Type, Len: cl.Len})
		}
		var src []string
		for _, k := range cs.SrcCols {
			src = append(src, fmt.Sprint(k))
		}
		args := []string{"-db", "d1", "-table", "t", "-dest-cols", strings.Join(cs.DstCols, ","), "-src-cols", strings.Join(src, ","), "-separator", cs.Sep}
		replay := map[string]interface{}{"table": strings.Join(sch, ", "), "command_line": args, "csv": clip(string(cs.csv), 3000)}
		var a script
		a.cfg(true, 0)
		a.k("init")
		a.sql("CREATE DATABASE d1")
		a.sql("USE d1")
		a.stmt(&proto.Stmt{Kind: "create", Table: "t", Defs: defs})
		a.k("close")
		outA := core.RunScript(drv, dir, a.ops, 60*time.Second)
		if outA.Died || len(outA.Res) != len(a.ops) {
			c.Inconclusive("harness", "e2e setup process died")
			return
		}
		for _, res := range outA.Res {
			if res.Failed() {
				c.Inconclusive("harness", "e2e setup failed: "+res.Err+res.Panic)
				return
			}
		}
		ctx, cancel := context.WithTimeout(context.Background(), 120*time.Second)
		defer cancel()
		run := exec.CommandContext(ctx, tool, args...)
		run.Dir = dir
		run.Stdin = bytes.NewReader(cs.csv)
		var stdout, stderr bytes.Buffer
		run.Stdout, run.Stderr = &stdout, &stderr
		err := run.Run()
		c.Count("e2e_runs", 1)
		if ctx.Err() != nil {
			c.Inconclusive("watchdog", "csvimport did not finish within 120 s")
			return
		}
		replay["stdout_tail"] = clip(tail(stdout.String(), 1500), 1500)
		if err != nil {
			c.Violation("C19:e2e:tool-failed", fmt.Sprintf("csvimport ended with %v: %s", err, clip(core.FatalTail(stderr.String())+tail(stdout.String(), 300), 600)), replay)
			return
		}
		var b script
		b.cfg(true, 0)
		b.k("init")
		b.sql("USE d1")
		q := b.query("SELECT * FROM t")
		b.k("close")
		outB := core.RunScript(drv, dir, b.ops, 60*time.Second)
		if outB.Died || len(outB.Res) != len(b.ops) {
			c.Violation("C19:e2e:database-unreadable-after-import", "the process reading the table back died: "+clip(core.FatalTail(outB.Stderr), 400), replay)
			return
		}
		rq := outB.Res[q]
		if rq.Failed() {
			c.Violation("C19:e2e:database-unreadable-after-import", "SELECT * FROM t after the import: "+rq.Err+rq.Panic, replay)
			return
		}
		events, rows, causes := refImport(cs)
		wantReports := 0
		for _, cause := range causes {
			switch cause {
			case "csv-syntax", "short-record", "unparsable-int", "unparsable-bigint", "unparsable-boolean":
				wantReports++
			}
		}
		replay["expected_events"] = events
		if len(rq.Rows) != len(rows) {
			c.Violation("C19:e2e:stored-row-count", fmt.Sprintf("%d records are valid, %d rows are in the table after the tool ran", len(rows), len(rq.Rows)), replay)
			return
		}
		for k, want := range rows {
			got := rq.Rows[k].Vals
			for j := range want {
				if j >= len(got) || got[j].Enc() != want[j].Enc() {
					c.Violation("C19:e2e:stored-value-differs:"+cs.Cols[j].Type, fmt.Sprintf("accepted record %d, column %s: stored differs from the field", k+1, cs.Cols[j].Name), replay)
					return
				}
			}
			if k > 0 && rq.Rows[k].ID <= rq.Rows[k-1].ID {
				c.Violation("C19:e2e:row-order", "stored rows are not in input order", replay)
				return
			}
		}
		gotReports := 0
		var reports []string
		for _, ln := range strings.Split(stdout.String(), "\n") {
			if ln = strings.TrimLeft(ln, "\r"); strings.HasPrefix(ln, "[line ") {
				gotReports++
				reports = append(reports, clip(ln, 90))
			}
		}
		replay["reports_printed"] = reports
		replay["record_fates_expected"] = causes
		if gotReports != wantReports {
			c.Violation("C19:e2e:error-reports", fmt.Sprintf("%d malformed records in the input, %d '[line N]' reports printed", wantReports, gotReports), replay)
			return
		}
		c.Count("e2e_runs_equal", 1)
		c.Count("e2e_records", int64(len(events)))
	})
}

func tail(s string, n int) string {
	if len(s) <= n {
		return s
	}
	return s[len(s)-n:]
}
