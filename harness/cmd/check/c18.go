package main

import (
	"fmt"
	"path/filepath"
	"strings"
	"sync/atomic"
	"time"

	"verif/harness/internal/core"
	"verif/harness/internal/gen"
	"verif/harness/internal/model"
	"verif/harness/proto"
)

func init() {
	checks["C18"] = checkC18
}

var c18Cols = []string{"i", "b", "s", "f", "n", "ns", "nf", "zz"}
var c18Tables = []string{"t1", "t2", "e", "nosuch"}
var c18Lits = []string{"1", "0", "2147483648", "'a'", "''", "'1'", "true", "false", "9223372036854775807"}
var c18Ops = []string{"=", "!=", "<", "<=", ">", ">="}

func pick(r *core.Rand, a []string) string { return a[r.Intn(len(a))] }

func c18Operand(r *core.Rand, quals []string) string {
	if r.Chance(1, 3) {
		return pick(r, c18Lits)
	}
	c := pick(r, c18Cols)
	if len(quals) > 0 && r.Chance(1, 2) {
		return pick(r, quals) + "." + c
	}
	return c
}

func c18Cond(r *core.Rand, quals []string) string {
	n := r.Range(1, 3)
	var p []string
	for i := 0; i < n; i++ {
		switch r.Intn(8) {
		case 0:
			p = append(p, c18Operand(r, quals)) // bare value as condition
		default:
			p = append(p, c18Operand(r, quals)+" "+pick(r, c18Ops)+" "+c18Operand(r, quals))
		}
	}
	out := p[0]
	for _, x := range p[1:] {
		out += " " + pick(r, []string{"AND", "OR"}) + " " + x
	}
	return out
}

// c18Statement produces one statement from the type-confused families.
func c18Statement(r *core.Rand, g *gen.StmtGen) (string, string) {
	t := pick(r, c18Tables)
	col := func() string { return pick(r, c18Cols) }
	switch r.Intn(30) {
	case 28, 29:
		// a statement of another family cut short at a token boundary: the
		// parser accepts some of these (an INSERT without any tuple after
		// VALUES, a statement without its last clause), and then they reach
		// the executor
		q, _ := c18Statement(r, g)
		f := strings.Fields(q)
		if len(f) > 1 {
			f = f[:r.Range(1, len(f)-1)]
		}
		if r.Chance(1, 4) {
			return pick(r, []string{"INSERT INTO t1 VALUES", "INSERT INTO t1 (i) VALUES", "insert into nosuch values", "INSERT INTO t1 (i, s) VALUES", "INSERT INTO z VALUES", "INSERT INTO e VALUES"}), "cut_short"
		}
		return strings.Join(f, " "), "cut_short"
	case 27:
		// a table without columns (z, 0-3 rows): alone, and on either side of
		// every kind of join with select lists, grouping and ordering over the
		// other side's columns
		jt := pick(r, []string{"JOIN", "LEFT JOIN", "RIGHT JOIN", "INNER JOIN"})
		on := pick(r, []string{"t1.i = t1.i", "1 = 1", "t1.i = 1", "t1.n = t1.i", "1 = 2"})
		return pick(r, []string{
			fmt.Sprintf("SELECT %s FROM t1 %s z ON %s", col(), jt, on),
			fmt.Sprintf("SELECT %s, %s FROM z %s t1 ON %s", col(), col(), jt, on),
			fmt.Sprintf("SELECT * FROM t1 %s z ON %s ORDER BY %s", jt, on, col()),
			fmt.Sprintf("SELECT %s, count(*) FROM z %s t1 ON %s GROUP BY %s", col(), jt, on, col()),
			fmt.Sprintf("SELECT count(*), avg(%s) FROM t1 %s z ON %s", col(), jt, on),
			fmt.Sprintf("SELECT t1.%s FROM t1 %s z ON %s %s z2 ON 1 = 1 WHERE t1.%s = t1.%s", col(), jt, on, strings.Replace(jt, "JOIN", "JOIN z", 1), col(), col()),
			"SELECT * FROM z", "SELECT count(*) FROM z", "SELECT * FROM z x JOIN z y ON 1 = 1", "SELECT 1 FROM z", "SELECT * FROM z ORDER BY i",
			"INSERT INTO z VALUES ()", "INSERT INTO z VALUES (), ()", "DELETE FROM z", "UPDATE z SET i = 1", "INSERT INTO z VALUES (1)",
		}), "zero_column_table"
	case 26:
		// the catalog tables addressed like any other table; whatever such a
		// statement does, the statements after it still have to return
		return pick(r, []string{
			"INSERT INTO sys_pages VALUES ('x', 999999)", "INSERT INTO sys_pages (table_name, file_offset) VALUES ('t1', 0)", "SELECT * FROM x",
			"UPDATE sys_schema SET field_type = 9 WHERE table_name = 't1'", "UPDATE sys_schema SET field_name = 'i' WHERE table_name = 't2'", "UPDATE sys_schema SET field_length = 0",
			"UPDATE sys_pages SET file_offset = 4096", "UPDATE sys_pages SET file_offset = 12345 WHERE table_name = 't2'", "UPDATE sys_pages SET table_name = 't1'",
			"DELETE FROM sys_pages WHERE table_name = 't2'", "DELETE FROM sys_schema WHERE table_name = 't1'", "DELETE FROM sys_schema", "DELETE FROM sys_pages",
			"INSERT INTO sys_schema VALUES ('t1', 'zz', 0, 1)", "INSERT INTO sys_schema VALUES ('e', 'i', 77, 1)",
		}), "catalog_dml"
	case 24:
		// names no file system or catalog column takes: very long, path
		// separators, dot names, a NUL byte, the empty name
		long := strings.Repeat("n", []int{255, 256, 300, 5000}[r.Intn(4)])
		name := pick(r, []string{long, long, `"a/b"`, `".."`, `"."`, "\"a\x00b\"", `""`, `"x` + long + `"`, `" "`})
		return fmt.Sprintf(pick(r, []string{"CREATE DATABASE %s", "USE %s", "CREATE TABLE %s (a int)", "CREATE TABLE %s ()", "CREATE TABLE %s ()", "SELECT * FROM %s", "INSERT INTO %s VALUES (1)", "CREATE TABLE nt5 (%s int)", "SELECT %s FROM t1", "DELETE FROM %s", "UPDATE %s SET i = 1"}), name), "hostile_names"
	case 25:
		// LIMIT / OFFSET at the edge of 64 bits, alone and together
		big := pick(r, []string{"9223372036854775807", "9223372036854775806", "4611686018427387904", "2147483648"})
		tail := pick(r, []string{"LIMIT " + big + " OFFSET 1", "LIMIT " + big + " OFFSET " + big, "OFFSET " + big + " LIMIT 1", "LIMIT " + big, "OFFSET " + big, "LIMIT 2 OFFSET " + big, "OFFSET 2 LIMIT " + big})
		return fmt.Sprintf(pick(r, []string{"SELECT * FROM %s %s", "SELECT * FROM %s ORDER BY i %s", "SELECT count(*) FROM %s %s", "SELECT i, count(*) FROM %s GROUP BY i %s"}), t, tail), "limit_offset_extremes"
	case 23:
		// outer joins with an EMPTY side whose columns the statement names (in
		// the select list, in WHERE, under COUNT / AVG, in ORDER BY): every
		// preserved row is padded with NULLs there
		good := func() string { return pick(r, []string{"i", "b", "s", "f", "n", "ns", "nf"}) }
		return pick(r, []string{
			fmt.Sprintf("SELECT t1.%s, e.%s FROM t1 LEFT JOIN e ON t1.i = e.i", good(), good()),
			fmt.Sprintf("SELECT e.%s FROM t1 LEFT JOIN e ON t1.i = e.i WHERE e.%s = 1", good(), good()),
			fmt.Sprintf("SELECT t1.%s FROM e RIGHT JOIN t1 ON t1.i = e.i", good()),
			fmt.Sprintf("SELECT e.%s, t1.%s FROM e RIGHT JOIN t1 ON t1.i = e.i ORDER BY %s", good(), good(), good()),
			fmt.Sprintf("SELECT count(e.%s), count(*) FROM t1 LEFT JOIN e ON t1.i = e.i", good()),
			fmt.Sprintf("SELECT avg(e.i), t1.%s FROM t1 LEFT JOIN e ON t1.i = e.i GROUP BY t1.%s", "f", "f"),
			fmt.Sprintf("SELECT x.%s, y.%s, z.%s FROM t1 x LEFT JOIN e y ON x.i = y.i LEFT JOIN t2 z ON z.i = x.i", good(), good(), good()),
			fmt.Sprintf("SELECT * FROM e x RIGHT JOIN t2 y ON x.i = y.i WHERE y.%s = x.%s", good(), good()),
		}), "outer_join_with_an_empty_side"
	case 21, 22:
		// select lists about as long as the table is wide, or longer (the same
		// column several times), with aggregates in the last places, grouped
		// by few columns so that groups have several rows
		n := r.Range(4, 11)
		gcols := []string{pick(r, []string{"i", "f", "s"})}
		if c2 := pick(r, []string{"i", "f", "s", "b"}); r.Bool() && c2 != gcols[0] {
			gcols = append(gcols, c2)
		}
		// (a column may stand in the list once: a second mention makes the
		// grouping ambiguous for the parser; literals and comparisons fill up)
		items := append([]string{}, gcols...)
		for len(items) < n {
			items = append(items, pick(r, []string{"1", "2", "'x'", "true", "i = 1", "s = 'a'", "i < b", "f = true"}))
		}
		for k := len(items) - 1; k > 0; k-- {
			j := r.Intn(k + 1)
			items[k], items[j] = items[j], items[k]
		}
		for k := r.Range(1, 2); k > 0; k-- {
			items = append(items, pick(r, []string{"count(*)", "avg(i)", "count(n)", "avg(b)", "count(s)"}))
		}
		if r.Chance(1, 4) {
			k := r.Intn(len(items))
			items[0], items[k] = items[k], items[0]
		}
		return fmt.Sprintf("SELECT %s FROM %s GROUP BY %s", strings.Join(items, ", "), pick(r, []string{"t1", "t2", "e", "t1 x JOIN t2 y ON x.i = y.i"}), strings.Join(gcols, ", ")), "long_select_list"
	case 0:
		return fmt.Sprintf("SELECT %s(%s) FROM %s", pick(r, []string{"avg", "count"}), col(), t), "aggregate"
	case 1:
		return fmt.Sprintf("SELECT %s, %s(%s) FROM %s GROUP BY %s", col(), pick(r, []string{"avg", "count"}), col(), t, col()), "aggregate_group"
	case 2:
		c1 := col()
		return fmt.Sprintf("SELECT %s, avg(%s), count(*) FROM %s WHERE %s GROUP BY %s ORDER BY %s", c1, col(), t, c18Cond(r, nil), c1, col()), "aggregate_group"
	case 3:
		return fmt.Sprintf("SELECT * FROM %s ORDER BY %s %s, %s", t, col(), pick(r, []string{"", "ASC", "DESC"}), col()), "order_by"
	case 4:
		return fmt.Sprintf("SELECT %s, %s FROM %s ORDER BY %s DESC LIMIT %d OFFSET %d", col(), col(), t, col(), r.Intn(5), r.Intn(5)), "order_by"
	case 5:
		return fmt.Sprintf("SELECT * FROM %s WHERE %s", t, c18Cond(r, nil)), "where"
	case 6:
		return fmt.Sprintf("SELECT %s FROM %s WHERE %s", c18Cond(r, nil), t, c18Cond(r, nil)), "where"
	case 7:
		jt := pick(r, []string{"JOIN", "LEFT JOIN", "RIGHT JOIN", "INNER JOIN"})
		q := []string{"t1", "t2"}
		return fmt.Sprintf("SELECT * FROM t1 %s t2 ON %s WHERE %s ORDER BY %s", jt, c18Cond(r, q), c18Cond(r, q), c18Operand(r, q)), "join"
	case 8:
		jt := pick(r, []string{"LEFT JOIN", "RIGHT JOIN"})
		return fmt.Sprintf("SELECT x.%s, y.%s, count(*) FROM t1 x %s %s y ON x.%s = y.%s GROUP BY x.%s, y.%s", col(), col(), jt, pick(r, c18Tables), col(), col(), col(), col()), "join"
	case 9:
		c1 := col()
		return fmt.Sprintf("SELECT %s x, %s x FROM %s ORDER BY x", c1, col(), t), "duplicate_alias"
	case 10:
		return fmt.Sprintf("SELECT %s", c18Cond(r, nil)), "no_from"
	case 11:
		return fmt.Sprintf("INSERT INTO %s VALUES (%s)", t, strings.Join(func() []string {
			n := r.Intn(9)
			var v []string
			for i := 0; i < n; i++ {
				v = append(v, pick(r, c18Lits))
			}
			return v
		}(), ", ")), "insert"
	case 12:
		return fmt.Sprintf("INSERT INTO %s (%s, %s) VALUES (%s, %s), (%s)", t, col(), col(), pick(r, c18Lits), pick(r, c18Lits), pick(r, c18Lits)), "insert"
	case 13:
		return fmt.Sprintf("INSERT INTO %s () VALUES ()", t), "insert"
	case 14:
		return fmt.Sprintf("UPDATE %s SET %s = %s WHERE %s", t, col(), c18Operand(r, nil), c18Cond(r, nil)), "update"
	case 15:
		return fmt.Sprintf("UPDATE %s SET %s = %s, %s = %s", t, col(), pick(r, c18Lits), col(), pick(r, c18Lits)), "update"
	case 16:
		return fmt.Sprintf("DELETE FROM %s WHERE %s", t, c18Cond(r, nil)), "delete"
	case 17:
		return pick(r, []string{"CREATE TABLE nt ()", "CREATE TABLE nt2 (a int, a int)", "CREATE TABLE (a int)", "CREATE TABLE t1 (a int)", "CREATE TABLE nt3 (a varchar(0), b boolean)", "CREATE TABLE sys_pages (a int)", "CREATE TABLE nt4 (a varchar(99999999999))"}), "create_table"
	case 18:
		return pick(r, []string{"USE nosuchdb", "USE d1", "USE d2", "CREATE DATABASE d1", "CREATE DATABASE d2", "SHOW DATABASES", "SHOW DATABASE", "USE", "CREATE DATABASE"}), "database"
	case 19:
		return fmt.Sprintf("SELECT * FROM %s", pick(r, []string{"sys_pages", "sys_schema"})) + pick(r, []string{"", " ORDER BY table_name", " WHERE file_offset > 0", " WHERE field_type = 'x'"}), "catalog"
	case 20:
		if r.Bool() {
			// an aggregate next to a comparison or a bare column in the
			// select list, over no rows at all (an empty table, a condition
			// nothing meets), with and without grouping
			agg := fmt.Sprintf("%s(%s)", pick(r, []string{"count", "avg"}), pick(r, append([]string{"*"}, c18Cols...)))
			if strings.HasPrefix(agg, "avg(*") {
				agg = "count(*)"
			}
			items := []string{agg, c18Cond(r, nil)}
			if r.Bool() {
				items = append(items, col())
			}
			if r.Bool() {
				items[0], items[1] = items[1], items[0]
			}
			from := pick(r, []string{"e", "t1 WHERE i > 99", "t1 WHERE i = 1 AND i = 2", "e x JOIN e y ON x.i = y.i", "t1 LEFT JOIN e ON t1.i = e.i WHERE t1.i > 50"})
			tail := pick(r, []string{"", "", " GROUP BY " + col(), " ORDER BY " + col()})
			return "SELECT " + strings.Join(items, ", ") + " FROM " + from + tail, "empty_table"
		}
		return fmt.Sprintf("SELECT count(%s), avg(%s) FROM e", col(), col()), "empty_table"
	}
	return model.RenderN(g.Any(), model.Style{KwCase: r.Intn(3), R: r}), "grammar_random"
}

func checkC18(c *core.Ctx) []core.Floor {
	c.Rule = "sessions in four states (no USE; after a failed USE; database selected; failed USE after a successful one) executing statements from type-confused families over tables with all four column types, NULLs in every nullable column and an empty table: AVG/COUNT over every type and over NULLs, ORDER BY over NULL-bearing columns, comparisons between every pair of types and with NULL-padded join sides, bare columns/literals as conditions, missing / ambiguous / duplicated columns and aliases, GROUP BY on other columns, LIMIT/OFFSET at the edge of 64 bits, database / table / column names no file system takes (255-5000 characters, path separators, dot names, NUL, empty), INSERT / UPDATE / DELETE addressed to the catalog tables sys_pages and sys_schema (followed by ordinary statements), a table without columns (0-3 rows) alone and on either side of every kind of join, statements of every family cut short at a token boundary (those the parser still accepts reach the executor, e.g. INSERT ... VALUES without a tuple), INSERT with wrong arity / unknown / repeated columns / empty VALUES, UPDATE from a column, DDL and database statements, plus random statements from the C10 grammar over the same names; one session in forty fills a table with 4097-20000 rows and runs the type-confused conditions over it in SELECT, UPDATE and DELETE (a session that does not finish is run again with 300 s; only a second stop at the same statement is a hang). Monitor: recover() around Session.ExecQuery in a child process (a dead child names its statement); wall-clock watchdog only as inconclusive. One case in eleven runs against the REAL 100 ms flush goroutine instead: multi-row INSERT, UPDATE, DELETE, CREATE TABLE and SELECTs (valid and type-confused) on a cold or warm cache, each held open by a sleep of 2-3 timer periods at its first cache miss, its second page change or inside its log append, so that a flush request is pending while the statement goes on; a script that does not finish is run a second time on its own with a 120 s allowance, and only if it stops at the same statement again is that reported as a hang. Distinct = (session state, statement text); non-trivial = the statement parsed (it reached execution)."
	c.Assume = []string{"any result or error value is acceptable; only panics, process death and hangs are judged"}
	drv := mustDriver(c, false)
	n := 600
	if !core.Quick(c) {
		n = 6000
	}
	core.ParallelFor(n, c.Workers, func(i int) { runC18(c, drv, i) })
	core.ParallelFor(n/10, c.Workers, func(i int) { runC18Ticker(c, drv, i) })
	core.ParallelFor(n/40, c.Workers, func(i int) { runC18Big(c, drv, i) })
	fl := []core.Floor{{Key: "statements", Min: 5000}, {Key: "outcome_ok", Min: 500}, {Key: "outcome_error", Min: 1000}, {Key: "ticker_statements_held_open_across_a_tick", Min: 100}, {Key: "family_big_table", Min: 100}}
	for _, st := range []string{"no_use", "failed_use", "selected", "failed_use_after_use"} {
		fl = append(fl, core.Floor{Key: "state_" + st, Min: 100})
	}
	return fl
}

func runC18(c *core.Ctx, drv string, idx int) {
	dir := c.CaseDir("c18")
	defer removeAll(dir)
	r := core.NewRand(core.SubSeed(c.Seed, "C18", idx))
	g := &gen.StmtGen{R: r, Pool: append(append([]string{}, c18Cols...), "t1", "t2", "e")}
	state := []string{"no_use", "failed_use", "selected", "failed_use_after_use"}[idx%4]
	var s script
	s.cfg(true, 0)
	s.k("init")
	// build the database in a separate session first
	s.sql("CREATE DATABASE d1")
	s.sql("USE d1")
	defs := []proto.ColDef{{Name: "i", Type: "int"}, {Name: "b", Type: "bigint"}, {Name: "s", Type: "varchar", Len: 20}, {Name: "f", Type: "boolean"}, {Name: "n", Type: "int"}, {Name: "ns", Type: "varchar", Len: 5}, {Name: "nf", Type: "boolean"}}
	for _, t := range []string{"t1", "t2", "e"} {
		s.stmt(&proto.Stmt{Kind: "create", Table: t, Defs: defs})
	}
	for _, t := range []string{"t1", "t2"} {
		ins := &proto.Stmt{Kind: "insert", Table: t}
		nr := r.Range(1, 12)
		for k := 0; k < nr; k++ {
			row := []proto.Val{proto.Int(int64(r.Intn(4))), proto.Int(int64(r.Intn(3)) << 40), proto.Str(pick(r, []string{"", "a", "b", "1"})), proto.Bool(r.Bool()), proto.Null(), proto.Null(), proto.Null()}
			if r.Bool() {
				row[4] = proto.Int(int64(r.Intn(3)))
			}
			if r.Bool() {
				row[5] = proto.Str("x")
			}
			if r.Bool() {
				row[6] = proto.Bool(r.Bool())
			}
			ins.Rows = append(ins.Rows, row)
		}
		s.stmt(ins)
	}
	s.sql("CREATE TABLE z ()")
	if nz := r.Intn(4); nz > 0 {
		s.sql("INSERT INTO z VALUES " + strings.TrimSuffix(strings.Repeat("(), ", nz), ", "))
	}
	s.k("close")
	s.k("session")
	setup := len(s.ops)
	switch state {
	case "failed_use":
		s.sql("USE nosuchdb")
	case "selected":
		s.sql("USE d1")
	case "failed_use_after_use":
		s.sql("USE d1")
		s.sql("USE nosuchdb")
	}
	first := len(s.ops)
	var tags []string
	for k := 0; k < 60; k++ {
		q, tag := c18Statement(r, g)
		s.sql(q)
		tags = append(tags, tag)
	}
	out := core.RunScript(drv, dir, s.ops, 120*time.Second)
	for k := 0; k < setup && k < len(out.Res); k++ {
		if out.Res[k].Failed() {
			c.Inconclusive("setup", "C18 setup failed: "+out.Res[k].Err+out.Res[k].Panic)
			return
		}
	}
	history := func(upto int) []string {
		var h []string
		for k := setup; k <= upto && k < len(s.ops); k++ {
			h = append(h, string(s.ops[k].SQL))
		}
		if len(h) > 25 {
			h = append([]string{"..."}, h[len(h)-25:]...)
		}
		return h
	}
	for k := first; k < len(out.Res); k++ {
		res := &out.Res[k]
		q := string(s.ops[k].SQL)
		tag := tags[k-first]
		c.Count("statements", 1)
		c.Count("state_"+state, 1)
		c.Count("family_"+tag, 1)
		parsed := !strings.HasPrefix(res.Err, "unable to parse sql")
		c.Eval(state+"/"+q, parsed)
		switch {
		case res.Panic != "":
			c.Violation("C18:panic:"+res.Frame, fmt.Sprintf("[session state %s] statement panicked: %s\n%s", state, res.Panic, q), map[string]interface{}{"session_state": state, "statement": q, "session_history": history(k), "stack": clip(res.Stack, 1500)})
		case res.Err != "":
			c.Count("outcome_error", 1)
		default:
			c.Count("outcome_ok", 1)
		}
	}
	if out.Died {
		q := ""
		if out.LastBeg >= 0 && out.LastBeg < len(s.ops) {
			q = string(s.ops[out.LastBeg].SQL)
		}
		if out.TimedOut {
			c.Inconclusive("watchdog", "C18 session exceeded the wall-clock watchdog at: "+q)
		} else {
			c.Violation("C18:process-died:"+errClass(core.FatalTail(out.Stderr)), fmt.Sprintf("[session state %s] the process died executing: %s\n%s", state, q, core.FatalTail(out.Stderr)), map[string]interface{}{"session_state": state, "statement": q, "session_history": history(out.LastBeg)})
		}
	}
	c.Sample(4, map[string]interface{}{"session_state": state, "statements": history(first + 5)})
}

// runC18Ticker: statements against the real flush goroutine, each held open
// across timer ticks at one of three points. Whatever the statement and the
// flusher do to each other, the statement has to return.
var c18HangsConfirmed int32

func runC18Ticker(c *core.Ctx, drv string, idx int) {
	if atomic.LoadInt32(&c18HangsConfirmed) >= 2 {
		return // two witnesses are enough; every further one costs minutes
	}
	dir := c.CaseDir("c18t")
	defer removeAll(dir)
	r := core.NewRand(core.SubSeed(c.Seed, "C18T", idx))
	var s script
	s.cfg(false, 0) // timer on
	s.k("init")
	s.add(proto.Op{K: "c13setup", S: "race"}) // handlers that only sleep
	s.sql("CREATE DATABASE d1")
	s.sql("CREATE DATABASE d2")
	s.sql("USE d1")
	s.sql("CREATE TABLE t1 (i INT, b BIGINT, s VARCHAR(20), f BOOLEAN)")
	s.sql("CREATE TABLE t2 (i INT, b BIGINT, s VARCHAR(20), f BOOLEAN)")
	rows := func(from, n int) string {
		var p []string
		for k := 0; k < n; k++ {
			p = append(p, fmt.Sprintf("(%d, %d, 'r%d', %v)", from+k, int64(from+k)<<33, (from+k)%7, (from+k)%2 == 0))
		}
		return strings.Join(p, ", ")
	}
	s.sql("INSERT INTO t1 VALUES " + rows(0, r.Range(5, 40)))
	s.sql("INSERT INTO t2 VALUES " + rows(0, r.Range(1, 12)))
	setup := len(s.ops)
	type held struct {
		op         int
		kind, park string
	}
	var hs []held
	next := 1000
	for k := 0; k < 8; k++ {
		if r.Chance(2, 3) {
			s.sql("USE d2") // cold cache on return
			s.sql("USE d1")
		}
		var q, kind string
		switch r.Intn(9) {
		case 0, 1:
			n := r.Range(2, 60)
			q, kind = "INSERT INTO t1 VALUES "+rows(next, n), "insert_multi"
			next += n
		case 2:
			q, kind = fmt.Sprintf("UPDATE t1 SET s = 'u%d' WHERE i >= %d", k, r.Intn(20)), "update"
		case 3:
			q, kind = fmt.Sprintf("DELETE FROM t1 WHERE i < %d", r.Intn(6)), "delete"
		case 4:
			q, kind = "SELECT * FROM t1 JOIN t2 ON t1.i = t2.i", "join"
		case 5:
			q, kind = fmt.Sprintf("CREATE TABLE n%d_%d (k INT, v VARCHAR(9))", idx, k), "create"
		case 6:
			q, kind = "INSERT INTO t1 VALUES "+rows(next, 3)+", (1, 2, 3, 4)", "insert_invalid_row" // refused as a whole
		case 7:
			q, kind = "UPDATE t1 SET i = 'x' WHERE i >= 0", "update_type_error"
		default:
			q, kind = "SELECT s, COUNT(*) FROM t1 GROUP BY s ORDER BY s", "select"
		}
		park := []string{"miss", "dirty2", "wal"}[r.Intn(3)]
		op := s.add(proto.Op{K: "c13stmt", SQL: proto.Text(q), S: park, N: r.Range(220, 320)})
		hs = append(hs, held{op, kind, park})
	}
	s.k("close")
	out := core.RunScript(drv, dir, s.ops, 45*time.Second)
	for k := 0; k < setup && k < len(out.Res); k++ {
		if out.Res[k].Failed() {
			c.Inconclusive("setup", "C18 ticker setup failed: "+out.Res[k].Err+out.Res[k].Panic)
			return
		}
	}
	describe := func(upto int) []string {
		var h []string
		for k := 0; k <= upto && k < len(s.ops); k++ {
			if s.ops[k].SQL != "" {
				h = append(h, clip(string(s.ops[k].SQL), 160))
			}
		}
		return h
	}
	for _, h := range hs {
		if h.op >= len(out.Res) {
			break
		}
		res := &out.Res[h.op]
		c.Count("statements", 1)
		c.Count("ticker_statements", 1)
		if res.Count == 1 {
			c.Count("ticker_statements_held_open_across_a_tick", 1)
			c.Count("ticker_held_"+h.kind+"_at_"+h.park, 1)
		}
		c.Eval(fmt.Sprintf("ticker/%d/%d", idx, h.op), res.Count == 1)
		if res.Panic != "" {
			c.Violation("C18:panic:"+res.Frame, fmt.Sprintf("[real flush timer, statement held open at %s] statement panicked: %s\n%s", h.park, res.Panic, clip(string(s.ops[h.op].SQL), 300)), map[string]interface{}{"statements": describe(h.op), "held_open_at": h.park, "stack": clip(res.Stack, 1500)})
		}
	}
	if !out.Died {
		return
	}
	at := out.LastBeg
	q := ""
	if at >= 0 && at < len(s.ops) {
		q = clip(string(s.ops[at].SQL), 300)
	}
	if !out.TimedOut {
		c.Violation("C18:process-died:"+errClass(core.FatalTail(out.Stderr)), fmt.Sprintf("[real flush timer] the process died executing: %s\n%s", q, core.FatalTail(out.Stderr)), map[string]interface{}{"statements": describe(at)})
		return
	}
	// did not finish: once more, alone, with a generous allowance
	dir2 := c.CaseDir("c18t2")
	defer removeAll(dir2)
	out2 := core.RunScript(drv, dir2, s.ops, 120*time.Second)
	if out2.Died && out2.TimedOut && out2.LastBeg == at {
		atomic.AddInt32(&c18HangsConfirmed, 1)
		kind, park := "other", ""
		for _, h := range hs {
			if h.op == at {
				kind, park = h.kind, h.park
			}
		}
		c.Violation("C18:hang:"+kind, fmt.Sprintf("[real flush timer] statement never returned (twice, the second time with 120 s for a script that takes about 4 s); it was held open by a sleep at %q while the flush timer fired: %s", park, q), map[string]interface{}{"statements": describe(at), "held_open_at": park, "how": "timer on; handlers only sleep on the session goroutine"})
		return
	}
	c.Inconclusive("watchdog", "C18 ticker session exceeded the wall-clock watchdog once, not when repeated: "+q)
}

// runC18Big: the type-confused conditions again, over a table of thousands of
// rows (whatever an implementation does differently from some row count on -
// chunks, workers, early exits - has to return as well). A script that does not
// finish is run a second time with a generous allowance; only a second stop at
// the same statement is a hang.
func runC18Big(c *core.Ctx, drv string, idx int) {
	dir := c.CaseDir("c18b")
	defer removeAll(dir)
	r := core.NewRand(core.SubSeed(c.Seed, "C18B", idx))
	var s script
	s.cfg(true, 0)
	s.k("init")
	s.sql("CREATE DATABASE d1")
	s.sql("USE d1")
	s.sql("CREATE TABLE big (i INT, s VARCHAR(8), n INT, f BOOLEAN)")
	nrows := []int{8192, 9000, 12288, 20000, 4097}[idx%5]
	for from := 0; from < nrows; from += 1000 {
		ins := &proto.Stmt{Kind: "insert", Table: "big"}
		for k := from; k < from+1000 && k < nrows; k++ {
			row := []proto.Val{proto.Int(int64(k)), proto.Str(fmt.Sprintf("v%d", k%7)), proto.Null(), proto.Bool(k%2 == 0)}
			if k%3 == 0 {
				row[2] = proto.Int(int64(k % 5))
			}
			ins.Rows = append(ins.Rows, row)
		}
		s.stmt(ins)
	}
	first := len(s.ops)
	conds := []string{"s > 5", "i >= 'x'", "n < 3", "n > i", "f > 1", "s = 1 OR i = 'a'", "i = 1 AND s < 2", "n = 1", "f = 'true'", "i < 100 AND n > 0", "s", "1", "zz = 1"}
	for k := 0; k < 14; k++ {
		cd := pick(r, conds)
		q := pick(r, []string{"SELECT i FROM big WHERE %s", "SELECT count(*) FROM big WHERE %s", "UPDATE big SET n = 1 WHERE %s", "DELETE FROM big WHERE %s", "SELECT * FROM big WHERE %s ORDER BY n", "SELECT s, count(*) FROM big WHERE %s GROUP BY s"})
		s.sql(fmt.Sprintf(q, cd))
	}
	run := func(limit time.Duration) *core.RunOut { return core.RunScript(drv, dir, s.ops, limit) }
	out := run(90 * time.Second)
	for k := first; k < len(out.Res); k++ {
		res := &out.Res[k]
		q := string(s.ops[k].SQL)
		c.Count("statements", 1)
		c.Count("family_big_table", 1)
		c.Eval("big/"+fmt.Sprint(nrows)+"/"+q, true)
		switch {
		case res.Panic != "":
			c.Violation("C18:panic:"+res.Frame, fmt.Sprintf("[table of %d rows] statement panicked: %s\n%s", nrows, res.Panic, q), map[string]interface{}{"rows": nrows, "statement": q, "stack": clip(res.Stack, 1500)})
		case res.Err != "":
			c.Count("outcome_error", 1)
		default:
			c.Count("outcome_ok", 1)
		}
	}
	if !out.Died {
		return
	}
	q := ""
	if out.LastBeg >= 0 && out.LastBeg < len(s.ops) {
		q = string(s.ops[out.LastBeg].SQL)
	}
	if !out.TimedOut {
		c.Violation("C18:process-died:"+errClass(core.FatalTail(out.Stderr)), fmt.Sprintf("[table of %d rows] the process died executing: %s\n%s", nrows, q, core.FatalTail(out.Stderr)), map[string]interface{}{"rows": nrows, "statement": q})
		return
	}
	if atomic.LoadInt32(&c18HangsConfirmed) >= 2 {
		return
	}
	at := out.LastBeg
	removeAll(filepath.Join(dir, "data"))
	out2 := run(300 * time.Second)
	if out2.Died && out2.TimedOut && out2.LastBeg == at {
		atomic.AddInt32(&c18HangsConfirmed, 1)
		c.Violation("C18:hang:big-table", fmt.Sprintf("statement over a table of %d rows never returned (twice, the second time with 300 s for a script that takes about a second): %s", nrows, q), map[string]interface{}{"rows": nrows, "statement": q, "how": "timer off, one session; the table is filled with INSERTs of 1000 rows"})
		return
	}
	c.Inconclusive("watchdog", "C18 big-table session exceeded the wall-clock watchdog once, not when repeated: "+q)
}
