package main

import (
	"fmt"
	"strings"
	"time"

	"verif/harness/internal/core"
	"verif/harness/internal/gen"
	"verif/harness/internal/model"
	"verif/harness/proto"
)

func init() {
	checks["C18"] = checkC18
}

var c18Cols = []string{"i", "b", "s", "f", "n", "ns", "nf", "zz"}
var c18Tables = []string{"t1", "t2", "e", "nosuch"}
var c18Lits = []string{"1", "0", "2147483648", "'a'", "''", "'1'", "true", "false", "9223372036854775807"}
var c18Ops = []string{"=", "!=", "<", "<=", ">", ">="}

func pick(r *core.Rand, a []string) string { return a[r.Intn(len(a))] }

func c18Operand(r *core.Rand, quals []string) string {
	if r.Chance(1, 3) {
		return pick(r, c18Lits)
	}
	c := pick(r, c18Cols)
	if len(quals) > 0 && r.Chance(1, 2) {
		return pick(r, quals) + "." + c
	}
	return c
}

func c18Cond(r *core.Rand, quals []string) string {
	n := r.Range(1, 3)
	var p []string
	for i := 0; i < n; i++ {
		switch r.Intn(8) {
		case 0:
			p = append(p, c18Operand(r, quals)) // bare value as condition
		default:
			p = append(p, c18Operand(r, quals)+" "+pick(r, c18Ops)+" "+c18Operand(r, quals))
		}
	}
	out := p[0]
	for _, x := range p[1:] {
		out += " " + pick(r, []string{"AND", "OR"}) + " " + x
	}
	return out
}

// c18Statement produces one statement from the type-confused families.
func c18Statement(r *core.Rand, g *gen.StmtGen) (string, string) {
	t := pick(r, c18Tables)
	col := func() string { return pick(r, c18Cols) }
	switch r.Intn(24) {
	case 0:
		return fmt.Sprintf("SELECT %s(%s) FROM %s", pick(r, []string{"avg", "count"}), col(), t), "aggregate"
	case 1:
		return fmt.Sprintf("SELECT %s, %s(%s) FROM %s GROUP BY %s", col(), pick(r, []string{"avg", "count"}), col(), t, col()), "aggregate_group"
	case 2:
		c1 := col()
		return fmt.Sprintf("SELECT %s, avg(%s), count(*) FROM %s WHERE %s GROUP BY %s ORDER BY %s", c1, col(), t, c18Cond(r, nil), c1, col()), "aggregate_group"
	case 3:
		return fmt.Sprintf("SELECT * FROM %s ORDER BY %s %s, %s", t, col(), pick(r, []string{"", "ASC", "DESC"}), col()), "order_by"
	case 4:
		return fmt.Sprintf("SELECT %s, %s FROM %s ORDER BY %s DESC LIMIT %d OFFSET %d", col(), col(), t, col(), r.Intn(5), r.Intn(5)), "order_by"
	case 5:
		return fmt.Sprintf("SELECT * FROM %s WHERE %s", t, c18Cond(r, nil)), "where"
	case 6:
		return fmt.Sprintf("SELECT %s FROM %s WHERE %s", c18Cond(r, nil), t, c18Cond(r, nil)), "where"
	case 7:
		jt := pick(r, []string{"JOIN", "LEFT JOIN", "RIGHT JOIN", "INNER JOIN"})
		q := []string{"t1", "t2"}
		return fmt.Sprintf("SELECT * FROM t1 %s t2 ON %s WHERE %s ORDER BY %s", jt, c18Cond(r, q), c18Cond(r, q), c18Operand(r, q)), "join"
	case 8:
		jt := pick(r, []string{"LEFT JOIN", "RIGHT JOIN"})
		return fmt.Sprintf("SELECT x.%s, y.%s, count(*) FROM t1 x %s %s y ON x.%s = y.%s GROUP BY x.%s, y.%s", col(), col(), jt, pick(r, c18Tables), col(), col(), col(), col()), "join"
	case 9:
		c1 := col()
		return fmt.Sprintf("SELECT %s x, %s x FROM %s ORDER BY x", c1, col(), t), "duplicate_alias"
	case 10:
		return fmt.Sprintf("SELECT %s", c18Cond(r, nil)), "no_from"
	case 11:
		return fmt.Sprintf("INSERT INTO %s VALUES (%s)", t, strings.Join(func() []string {
			n := r.Intn(9)
			var v []string
			for i := 0; i < n; i++ {
				v = append(v, pick(r, c18Lits))
			}
			return v
		}(), ", ")), "insert"
	case 12:
		return fmt.Sprintf("INSERT INTO %s (%s, %s) VALUES (%s, %s), (%s)", t, col(), col(), pick(r, c18Lits), pick(r, c18Lits), pick(r, c18Lits)), "insert"
	case 13:
		return fmt.Sprintf("INSERT INTO %s () VALUES ()", t), "insert"
	case 14:
		return fmt.Sprintf("UPDATE %s SET %s = %s WHERE %s", t, col(), c18Operand(r, nil), c18Cond(r, nil)), "update"
	case 15:
		return fmt.Sprintf("UPDATE %s SET %s = %s, %s = %s", t, col(), pick(r, c18Lits), col(), pick(r, c18Lits)), "update"
	case 16:
		return fmt.Sprintf("DELETE FROM %s WHERE %s", t, c18Cond(r, nil)), "delete"
	case 17:
		return pick(r, []string{"CREATE TABLE nt ()", "CREATE TABLE nt2 (a int, a int)", "CREATE TABLE (a int)", "CREATE TABLE t1 (a int)", "CREATE TABLE nt3 (a varchar(0), b boolean)", "CREATE TABLE sys_pages (a int)", "CREATE TABLE nt4 (a varchar(99999999999))"}), "create_table"
	case 18:
		return pick(r, []string{"USE nosuchdb", "USE d1", "USE d2", "CREATE DATABASE d1", "CREATE DATABASE d2", "SHOW DATABASES", "SHOW DATABASE", "USE", "CREATE DATABASE"}), "database"
	case 19:
		return fmt.Sprintf("SELECT * FROM %s", pick(r, []string{"sys_pages", "sys_schema"})) + pick(r, []string{"", " ORDER BY table_name", " WHERE file_offset > 0", " WHERE field_type = 'x'"}), "catalog"
	case 20:
		return fmt.Sprintf("SELECT count(%s), avg(%s) FROM e", col(), col()), "empty_table"
	}
	return model.RenderN(g.Any(), model.Style{KwCase: r.Intn(3), R: r}), "grammar_random"
}

func checkC18(c *core.Ctx) []core.Floor {
	c.Rule = "sessions in four states (no USE; after a failed USE; database selected; failed USE after a successful one) executing statements from type-confused families over tables with all four column types, NULLs in every nullable column and an empty table: AVG/COUNT over every type and over NULLs, ORDER BY over NULL-bearing columns, comparisons between every pair of types and with NULL-padded join sides, bare columns/literals as conditions, missing / ambiguous / duplicated columns and aliases, GROUP BY on other columns, INSERT with wrong arity / unknown / repeated columns / empty VALUES, UPDATE from a column, DDL and database statements, plus random statements from the C10 grammar over the same names. Monitor: recover() around Session.ExecQuery in a child process (a dead child names its statement); wall-clock watchdog only as inconclusive. Distinct = (session state, statement text); non-trivial = the statement parsed (it reached execution)."
	c.Assume = []string{"any result or error value is acceptable; only panics, process death and hangs are judged"}
	drv := mustDriver(c, false)
	n := 600
	if !core.Quick(c) {
		n = 6000
	}
	core.ParallelFor(n, c.Workers, func(i int) { runC18(c, drv, i) })
	fl := []core.Floor{{Key: "statements", Min: 5000}, {Key: "outcome_ok", Min: 500}, {Key: "outcome_error", Min: 1000}}
	for _, st := range []string{"no_use", "failed_use", "selected", "failed_use_after_use"} {
		fl = append(fl, core.Floor{Key: "state_" + st, Min: 100})
	}
	return fl
}

func runC18(c *core.Ctx, drv string, idx int) {
	dir := c.CaseDir("c18")
	defer removeAll(dir)
	r := core.NewRand(core.SubSeed(c.Seed, "C18", idx))
	g := &gen.StmtGen{R: r, Pool: append(append([]string{}, c18Cols...), "t1", "t2", "e")}
	state := []string{"no_use", "failed_use", "selected", "failed_use_after_use"}[idx%4]
	var s script
	s.cfg(true, 0)
	s.k("init")
	// build the database in a separate session first
	s.sql("CREATE DATABASE d1")
	s.sql("USE d1")
	defs := []proto.ColDef{{Name: "i", Type: "int"}, {Name: "b", Type: "bigint"}, {Name: "s", Type: "varchar", Len: 20}, {Name: "f", Type: "boolean"}, {Name: "n", Type: "int"}, {Name: "ns", Type: "varchar", Len: 5}, {Name: "nf", Type: "boolean"}}
	for _, t := range []string{"t1", "t2", "e"} {
		s.stmt(&proto.Stmt{Kind: "create", Table: t, Defs: defs})
	}
	for _, t := range []string{"t1", "t2"} {
		ins := &proto.Stmt{Kind: "insert", Table: t}
		nr := r.Range(1, 12)
		for k := 0; k < nr; k++ {
			row := []proto.Val{proto.Int(int64(r.Intn(4))), proto.Int(int64(r.Intn(3)) << 40), proto.Str(pick(r, []string{"", "a", "b", "1"})), proto.Bool(r.Bool()), proto.Null(), proto.Null(), proto.Null()}
			if r.Bool() {
				row[4] = proto.Int(int64(r.Intn(3)))
			}
			if r.Bool() {
				row[5] = proto.Str("x")
			}
			if r.Bool() {
				row[6] = proto.Bool(r.Bool())
			}
			ins.Rows = append(ins.Rows, row)
		}
		s.stmt(ins)
	}
	s.k("close")
	s.k("session")
	setup := len(s.ops)
	switch state {
	case "failed_use":
		s.sql("USE nosuchdb")
	case "selected":
		s.sql("USE d1")
	case "failed_use_after_use":
		s.sql("USE d1")
		s.sql("USE nosuchdb")
	}
	first := len(s.ops)
	var tags []string
	for k := 0; k < 60; k++ {
		q, tag := c18Statement(r, g)
		s.sql(q)
		tags = append(tags, tag)
	}
	out := core.RunScript(drv, dir, s.ops, 120*time.Second)
	for k := 0; k < setup && k < len(out.Res); k++ {
		if out.Res[k].Failed() {
			c.Inconclusive("setup", "C18 setup failed: "+out.Res[k].Err+out.Res[k].Panic)
			return
		}
	}
	history := func(upto int) []string {
		var h []string
		for k := setup; k <= upto && k < len(s.ops); k++ {
			h = append(h, string(s.ops[k].SQL))
		}
		if len(h) > 25 {
			h = append([]string{"..."}, h[len(h)-25:]...)
		}
		return h
	}
	for k := first; k < len(out.Res); k++ {
		res := &out.Res[k]
		q := string(s.ops[k].SQL)
		tag := tags[k-first]
		c.Count("statements", 1)
		c.Count("state_"+state, 1)
		c.Count("family_"+tag, 1)
		parsed := !strings.HasPrefix(res.Err, "unable to parse sql")
		c.Eval(state+"/"+q, parsed)
		switch {
		case res.Panic != "":
			c.Violation("C18:panic:"+res.Frame, fmt.Sprintf("[session state %s] statement panicked: %s\n%s", state, res.Panic, q), map[string]interface{}{"session_state": state, "statement": q, "session_history": history(k), "stack": clip(res.Stack, 1500)})
		case res.Err != "":
			c.Count("outcome_error", 1)
		default:
			c.Count("outcome_ok", 1)
		}
	}
	if out.Died {
		q := ""
		if out.LastBeg >= 0 && out.LastBeg < len(s.ops) {
			q = string(s.ops[out.LastBeg].SQL)
		}
		if out.TimedOut {
			c.Inconclusive("watchdog", "C18 session exceeded the wall-clock watchdog at: "+q)
		} else {
			c.Violation("C18:process-died:"+errClass(core.FatalTail(out.Stderr)), fmt.Sprintf("[session state %s] the process died executing: %s\n%s", state, q, core.FatalTail(out.Stderr)), map[string]interface{}{"session_state": state, "statement": q, "session_history": history(out.LastBeg)})
		}
	}
	c.Sample(4, map[string]interface{}{"session_state": state, "statements": history(first + 5)})
}
