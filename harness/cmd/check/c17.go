package main

import (
	"fmt"
	"path/filepath"
	"sort"
	"strings"
	"time"

	"verif/harness/internal/core"
	"verif/harness/internal/gen"
	"verif/harness/internal/model"
	"verif/harness/proto"
)

func init() {
	checks["C17"] = checkC17
}

type c17Step struct {
	kind   string // create_db use show stmt pause restart
	name   string // database name as written
	stmt   *proto.Stmt
	text   string
	ms     int
	how    string // restart: clean exit kill
	useCls string // other same missing first othercase
}

type c17DB struct {
	m     *model.DB
	h     *gen.Hist
	grave model.Graveyard
}

// c17CaseVariant spells a database name in another letter case - one that
// names the same database: the same lower-case form (for "maſs" the upper-case
// form MASS is another database's name, so it is not used).
// c17Key: the database a written name stands for - quotes off, lower case.
func c17Key(written string) string {
	if len(written) >= 2 && written[0] == '"' && written[len(written)-1] == '"' {
		written = written[1 : len(written)-1]
	}
	return strings.ToLower(written)
}

// c17Spell writes a database name as SQL: in double quotes when it is not a
// plain identifier (blanks, a leading dot).
func c17Spell(name string) string {
	if strings.HasPrefix(name, `"`) {
		return name
	}
	if strings.ContainsAny(name, " .") {
		return `"` + name + `"`
	}
	return name
}

func c17CaseVariant(r *core.Rand, nm string) string {
	if len(nm) >= 2 && nm[0] == '"' {
		return `"` + c17CaseVariant(r, nm[1:len(nm)-1]) + `"`
	}
	rs := []rune(nm)
	title := strings.ToUpper(string(rs[:1])) + strings.ToLower(string(rs[1:]))
	cands := []string{strings.ToUpper(nm), title}
	if r.Bool() {
		cands[0], cands[1] = cands[1], cands[0]
	}
	for _, v := range cands {
		if strings.ToLower(v) == strings.ToLower(nm) {
			return v
		}
	}
	return nm
}

func checkC17(c *core.Ctx) []core.Floor {
	c.Rule = "scripts of 15-60 steps over 2-4 databases (names of letters, digits and underscores, also with a leading underscore, with letters outside ASCII, pairs of names that differ only by a long s / final sigma, and quoted names with a blank inside or at the end or a leading dot; one script in 48 opens by creating 100-1030 further databases and lists them before and after a restart) in one session per process lifetime, REAL 100 ms flush timer: CREATE DATABASE (new / existing / other letter case), USE (another / the current one / a missing one / other letter case), SHOW DATABASES, DDL and DML as SQL text through Session.ExecQuery, pauses of 0 / 130 / 350 ms, and restarts (clean close, os.Exit without close, SIGKILL; abrupt ones after a pause of > 2 ticks; 'killhot': after that pause one more UPDATE or DELETE is acknowledged and the process is killed at once, so that its effect is in the log only) after which a new process runs InitStorage and continues the script. Oracle: model of databases; the current database changes only on a successful USE; after every successful USE every table of the selected database is read and compared; at every restart boundary the data directory (process gone, hence quiescent) is copied and a separate process recovers the copy and reads every table of every database; SHOW DATABASES must equal the created names (lower-cased set). Distinct = script; non-trivial = the script re-selected the current database or switched databases with unflushed work, then paused >= 1 tick."
	c.Assume = []string{"database names are compared case-insensitively (directories are lower-cased)", "abrupt restarts follow a pause of more than two ticks and a look at the cache (no dirty page left), so that a kill never lands inside a page flush (that situation is C04's)"}
	drv := mustDriver(c, false)
	n := 96
	if !core.Quick(c) {
		n = 2500
	}
	core.ParallelFor(n, c.Workers, func(i int) { runC17(c, drv, i) })
	return []core.Floor{{Key: "scripts", Min: int64(n)}, {Key: "use_same", Min: 20}, {Key: "use_other", Min: 50}, {Key: "use_missing", Min: 20}, {Key: "use_othercase", Min: 5},
		{Key: "restart_clean", Min: 10}, {Key: "restart_exit", Min: 10}, {Key: "restart_kill", Min: 5}, {Key: "restart_killhot", Min: 5}, {Key: "scripted_openings_updates_only_then_away_and_back", Min: 5}, {Key: "scripted_openings_huge_statement_then_away_and_back", Min: 3}, {Key: "reuse_same_then_insert_then_pause", Min: 5}, {Key: "failed_use_then_dml", Min: 5},
		{Key: "restart_boundary_databases_verified", Min: 100}, {Key: "dumps_after_use_compared", Min: 100}, {Key: "create_existing", Min: 10}, {Key: "scripted_openings_with_hundreds_of_databases", Min: 1}}
}

func runC17(c *core.Ctx, drv string, idx int) {
	r := core.NewRand(core.SubSeed(c.Seed, "C17", idx))
	dir := c.CaseDir("c17")
	defer removeAll(dir)
	// (names that begin with an underscore or contain digits are identifiers like any other)
	names := [][]string{{"alpha", "Beta", "gamma", "DELTA"}, {"_staging", "db_2", "Beta", "x9"}, {"alpha", "_s", "B_", "_9"},
		// letters outside ASCII, with upper / lower case forms; two names that a
		// Unicode case FOLDING takes for the same although their lower-case
		// forms (which name the directories) differ: the long s and the final sigma
		{"Übung", "ärger", "Ωmega", "x9"}, {"mass", "maſs", "Übung", "d2"}, {"ΟΔΟΣ", "οδος", "οδοσ", "q"},
		// names that need quotes: a blank inside or at the end (next to the same name without it), a leading dot
		{`"shop "`, "shop", `"my db"`, "x9"}, {`".hidden"`, `"shop  "`, `"shop "`, "shop"}}[r.Intn(8)][:r.Range(2, 4)]
	// ---- generate the script against the model ----
	dbs := map[string]*c17DB{}
	cur := ""
	var steps []c17Step
	nsteps := r.Range(15, 60)
	if idx%3 == 0 {
		nsteps = r.Range(60, 120)
	}
	lastWasUse, lastFailedUse := "", false
	nontrivial := false
	sinceUseSameInsert := false
	if idx%16 == 7 {
		// scripted opening: one statement that changes thousands of pages, and
		// straight away (no pause: at most one timer tick has passed) another
		// database is selected - the first one is closed with most of those
		// pages still only in its cache - and then the first one again
		a, b := c17Key(names[0]), c17Key(names[1])
		for _, nm := range []string{a, b} {
			steps = append(steps, c17Step{kind: "create_db", name: c17Spell(nm)})
			dbs[nm] = &c17DB{m: model.NewDB(), grave: model.Graveyard{}, h: gen.NewHist(core.NewRand(r.U64()), true)}
		}
		steps = append(steps, c17Step{kind: "use", name: c17Spell(a), useCls: "other"})
		d := dbs[a]
		ct := d.h.CreateTable()
		d.h.DB.Apply(ct)
		steps = append(steps, c17Step{kind: "stmt", stmt: ct, text: model.RenderStmt(ct, model.Plain)})
		big := d.h.Burst(d.h.DB.Tables[0], []int{24000, 30000, 20000}[idx/16%3])
		steps = append(steps, c17Step{kind: "stmt", stmt: big, text: model.RenderStmt(big, model.Plain)})
		steps = append(steps, c17Step{kind: "use", name: c17Spell(b), useCls: "other"}, c17Step{kind: "use", name: c17Spell(a), useCls: "other"})
		cur = a
		nsteps += len(steps)
		c.Count("scripted_openings_huge_statement_then_away_and_back", 1)
	}
	if idx%8 == 3 {
		// scripted opening: rows are inserted and reach the data file; then
		// ONLY updates and deletes (no row id handed out, no page allocated,
		// no table created: of the file header nothing but the next log
		// sequence number moves), a pause, away to another database and back,
		// one more change, and a restart - clean, or a kill right after that
		// change
		a, b := c17Key(names[0]), c17Key(names[1])
		for _, nm := range []string{a, b} {
			steps = append(steps, c17Step{kind: "create_db", name: c17Spell(nm)})
			dbs[nm] = &c17DB{m: model.NewDB(), grave: model.Graveyard{}, h: gen.NewHist(core.NewRand(r.U64()), true)}
		}
		steps = append(steps, c17Step{kind: "use", name: c17Spell(a), useCls: "other"})
		cur = a
		d := dbs[a]
		push := func(st *proto.Stmt) {
			steps = append(steps, c17Step{kind: "stmt", stmt: st, text: model.RenderStmt(st, model.Plain)})
		}
		ct := d.h.CreateTable()
		d.h.DB.Apply(ct)
		push(ct)
		t := d.h.DB.Tables[0]
		for len(t.Rows) < 4 {
			ins := d.h.Insert(t, r.Range(2, 4))
			if f, _, _, err := d.h.DB.Apply(ins); f == "" && err == nil {
				push(ins)
			}
		}
		steps = append(steps, c17Step{kind: "pause", ms: 250})
		for k := r.Range(1, 3); k > 0; k-- {
			if st := d.h.NextRowChange(); st != nil {
				push(st)
			}
		}
		steps = append(steps, c17Step{kind: "pause", ms: []int{130, 250}[r.Intn(2)]})
		steps = append(steps, c17Step{kind: "use", name: c17Spell(b), useCls: "other"}, c17Step{kind: "use", name: c17Spell(a), useCls: "other"})
		if st := d.h.NextRowChange(); st != nil && r.Bool() {
			push(st)
			steps = append(steps, c17Step{kind: "pause", ms: 250}, c17Step{kind: "restart", how: "clean"})
			cur = ""
		} else if st != nil {
			steps = append(steps, c17Step{kind: "pause", ms: 250}, c17Step{kind: "quiesce"})
			push(st)
			steps = append(steps, c17Step{kind: "restart", how: "killhot"})
			cur = ""
		}
		nsteps += len(steps)
		c.Count("scripted_openings_updates_only_then_away_and_back", 1)
	}
	if idx%4 == 1 {
		// scripted opening: a database with more than 7 tables (two-level
		// catalog), a table whose root has moved, then away and back without
		// a restart and further DML on that table
		a, b := c17Key(names[0]), c17Key(names[1])
		for _, nm := range []string{a, b} {
			steps = append(steps, c17Step{kind: "create_db", name: c17Spell(nm)})
			dbs[nm] = &c17DB{m: model.NewDB(), grave: model.Graveyard{}, h: gen.NewHist(core.NewRand(r.U64()), true)}
		}
		steps = append(steps, c17Step{kind: "use", name: c17Spell(a), useCls: "other"})
		cur = a
		d := dbs[a]
		d.h.MaxTables = 10
		push := func(st *proto.Stmt) {
			steps = append(steps, c17Step{kind: "stmt", stmt: st, text: model.RenderStmt(st, model.Plain)})
		}
		for i := 0; i < r.Range(8, 9); i++ {
			ct := d.h.CreateTable()
			d.h.DB.Apply(ct)
			push(ct)
		}
		t := d.h.DB.Tables[r.Intn(len(d.h.DB.Tables))]
		for len(t.Rows) < 10 {
			ins := d.h.Insert(t, r.Range(3, 6))
			if f, _, _, err := d.h.DB.Apply(ins); f == "" && err == nil {
				push(ins)
			}
		}
		if r.Bool() {
			steps = append(steps, c17Step{kind: "pause", ms: 130})
		}
		steps = append(steps, c17Step{kind: "use", name: c17Spell(b), useCls: "other"}, c17Step{kind: "use", name: c17Spell(a), useCls: "other"})
		del := d.h.Delete(t)
		if f, _, _, err := d.h.DB.Apply(del); f == "" && err == nil {
			push(del)
		}
		for k := 0; k < 2; k++ {
			ins := d.h.Insert(t, r.Range(3, 6))
			if f, _, _, err := d.h.DB.Apply(ins); f == "" && err == nil {
				push(ins)
			}
		}
		steps = append(steps, c17Step{kind: "use", name: c17Spell(b), useCls: "other"}, c17Step{kind: "use", name: c17Spell(a), useCls: "other"})
		nsteps += len(steps)
		c.Count("scripted_two_level_catalog_openings", 1)
	}
	if idx%48 == 7 {
		// scripted opening: hundreds of databases (counts around the sizes in
		// which directory listings are usually read), listed before and
		// after a restart
		nmany := []int{100, 255, 256, 257, 511, 512}[r.Intn(6)]
		if (idx/48)%2 == 1 {
			nmany = []int{513, 600, 1030}[r.Intn(3)]
		}
		for k := 0; k < nmany; k++ {
			nm := fmt.Sprintf("m%04d", k)
			steps = append(steps, c17Step{kind: "create_db", name: nm})
			dbs[nm] = &c17DB{m: model.NewDB(), grave: model.Graveyard{}}
			dbs[nm].h = gen.NewHist(core.NewRand(r.U64()), true)
		}
		steps = append(steps, c17Step{kind: "show"}, c17Step{kind: "pause", ms: 250}, c17Step{kind: "restart", how: "clean"}, c17Step{kind: "show"})
		cur = ""
		nsteps += len(steps)
		c.Count("scripted_openings_with_hundreds_of_databases", 1)
		c.Count(fmt.Sprintf("databases_%d", nmany), 1)
	}
	for len(steps) < nsteps {
		x := r.Intn(20)
		if cur == "" && len(dbs) > 0 && r.Bool() {
			x = 3 // get a database selected again soon after a restart
		}
		switch {
		case x < 2:
			nm := names[r.Intn(len(names))]
			if _, ok := dbs[c17Key(nm)]; ok && r.Bool() {
				nm = c17CaseVariant(r, nm)
			}
			steps = append(steps, c17Step{kind: "create_db", name: nm})
			if _, ok := dbs[c17Key(nm)]; !ok {
				dbs[c17Key(nm)] = &c17DB{m: model.NewDB(), grave: model.Graveyard{}}
				dbs[c17Key(nm)].h = gen.NewHist(core.NewRand(r.U64()), true)
				if r.Bool() {
					// many tables: the catalog of this database becomes a
					// two-level tree
					dbs[c17Key(nm)].h.MaxTables = r.Range(8, 10)
				}
			}
		case x < 6:
			var existing []string
			for k := range dbs {
				existing = append(existing, k)
			}
			sort.Strings(existing)
			st := c17Step{kind: "use"}
			switch y := r.Intn(10); {
			case y < 2 || len(existing) == 0:
				st.name, st.useCls = "nosuch"+fmt.Sprint(r.Intn(3)), "missing"
			case y < 5 && cur != "":
				st.name, st.useCls = c17Spell(cur), "same"
			case y < 6:
				st.name, st.useCls = c17CaseVariant(r, c17Spell(existing[r.Intn(len(existing))])), "othercase"
			default:
				st.name, st.useCls = c17Spell(existing[r.Intn(len(existing))]), "other"
			}
			if st.useCls != "missing" {
				if c17Key(st.name) == cur && st.useCls != "same" {
					st.useCls = "same"
				}
				cur = c17Key(st.name)
			}
			steps = append(steps, st)
		case x < 7:
			steps = append(steps, c17Step{kind: "show"})
		case x < 15:
			if cur == "" {
				steps = append(steps, c17Step{kind: "stmt", text: "INSERT INTO t1 VALUES (1, 2)"})
				break
			}
			d := dbs[cur]
			st := d.h.Next()
			steps = append(steps, c17Step{kind: "stmt", stmt: st, text: model.RenderStmt(st, model.Plain)})
		case x < 18:
			steps = append(steps, c17Step{kind: "pause", ms: []int{130, 350}[r.Intn(2)]})
		default:
			how := []string{"clean", "exit", "kill", "killhot"}[r.Intn(4)]
			if how != "clean" {
				steps = append(steps, c17Step{kind: "pause", ms: 250})
			}
			if how == "killhot" {
				// everything is in the data file; then one UPDATE or DELETE
				// (changes existing pages, allocates none) is acknowledged and
				// the process is killed at once: its effect is in the log only
				// and start-up has to bring it back - in whichever database
				// it was, whatever state the other databases are in
				var st *proto.Stmt
				if cur != "" {
					st = dbs[cur].h.NextRowChange()
				}
				if st == nil {
					how = "kill"
				} else {
					steps = append(steps, c17Step{kind: "quiesce"}, c17Step{kind: "stmt", stmt: st, text: model.RenderStmt(st, model.Plain)})
				}
			}
			steps = append(steps, c17Step{kind: "restart", how: how})
			cur = ""
		}
	}
	steps = append(steps, c17Step{kind: "pause", ms: 250}, c17Step{kind: "restart", how: []string{"clean", "exit", "kill"}[r.Intn(3)]})
	// ---- execute segment by segment ----
	applied := map[string]*c17DB{} // oracle-side models (fresh, driven by observed outcomes)
	mcur := ""
	created := map[string]bool{}
	var history []string
	pos := 0
	seg := 0
	fail := func(sig, what string) {
		h := history
		if len(h) > 60 {
			h = append([]string{"..."}, h[len(h)-60:]...)
		}
		c.Violation(sig, what, map[string]interface{}{"script": idx, "steps_so_far": h, "how": "real 100 ms flush timer; every restart is a new process running InitStorage"})
	}
	for pos < len(steps) {
		seg++
		var s script
		type meta struct {
			kind string
			step int
		}
		var mt []meta
		add := func(op proto.Op, m meta) { s.add(op); mt = append(mt, m) }
		add(proto.Op{K: "cfg", N: 0}, meta{kind: "other"})
		add(proto.Op{K: "init"}, meta{kind: "init"})
		end := pos
		how := ""
		for end < len(steps) {
			st := steps[end]
			switch st.kind {
			case "create_db":
				add(proto.Op{K: "sql", SQL: proto.Text("CREATE DATABASE " + st.name)}, meta{"create_db", end})
			case "use":
				add(proto.Op{K: "sql", SQL: proto.Text("USE " + st.name)}, meta{"use", end})
				add(proto.Op{K: "dump"}, meta{"dump", end})
			case "show":
				add(proto.Op{K: "showdb"}, meta{"show", end})
			case "stmt":
				add(proto.Op{K: "sql", SQL: proto.Text(st.text)}, meta{"stmt", end})
			case "pause":
				add(proto.Op{K: "sleep", N: st.ms}, meta{"pause", end})
			case "quiesce":
				add(proto.Op{K: "quiesce"}, meta{"other", end})
			case "restart":
				how = st.how
				switch st.how {
				case "clean":
					add(proto.Op{K: "close"}, meta{"close", end})
				case "killhot":
					add(proto.Op{K: "kill"}, meta{"exit", end})
				case "exit":
					add(proto.Op{K: "quiesce"}, meta{"other", end})
					add(proto.Op{K: "exit"}, meta{"exit", end})
				default:
					add(proto.Op{K: "quiesce"}, meta{"other", end})
					add(proto.Op{K: "kill"}, meta{"exit", end})
				}
			}
			end++
			if st.kind == "restart" {
				break
			}
		}
		out := core.RunScript(drv, dir, s.ops, 120*time.Second)
		ok := true
		for k := range out.Res {
			res := &out.Res[k]
			m := mt[k]
			st := c17Step{}
			if m.kind != "other" && m.kind != "init" {
				st = steps[m.step]
			}
			if res.Panic != "" {
				fail("C17:panic:"+res.Frame, fmt.Sprintf("%s panicked: %s", m.kind, res.Panic))
				ok = false
				break
			}
			switch m.kind {
			case "init":
				if res.Err != "" {
					fail("C17:startup-failed:"+errKind(res.Err), "InitStorage after restart returned: "+res.Err)
					ok = false
				}
			case "create_db":
				history = append(history, "CREATE DATABASE "+st.name)
				key := c17Key(st.name)
				if created[key] {
					c.Count("create_existing", 1)
					if res.Err == "" {
						fail("C17:create-existing-database-accepted", "CREATE DATABASE "+st.name+" succeeded although the database exists")
						ok = false
					}
				} else {
					if res.Err != "" {
						fail("C17:create-database-failed:"+errKind(res.Err), "CREATE DATABASE "+st.name+" returned: "+res.Err)
						ok = false
					}
					created[key] = true
					applied[key] = &c17DB{m: model.NewDB(), grave: model.Graveyard{}}
				}
			case "use":
				history = append(history, "USE "+st.name)
				key := c17Key(st.name)
				c.Count("use_"+st.useCls, 1)
				if !created[key] {
					if res.Err == "" {
						fail("C17:use-missing-database-accepted", "USE "+st.name+" succeeded although no such database exists")
						ok = false
					}
					lastFailedUse = true
				} else {
					if res.Err != "" {
						fail("C17:use-failed:"+errKind(res.Err), "USE "+st.name+" returned: "+res.Err)
						ok = false
					}
					if mcur == key {
						lastWasUse = "same"
					} else {
						lastWasUse = "other"
					}
					mcur = key
					lastFailedUse = false
				}
			case "dump":
				if mcur == "" {
					break // no database selected: the dump op reports a driver error
				}
				if res.Err != "" {
					fail("C17:read-after-use-failed:"+errKind(res.Err), "reading the tables of "+mcur+" failed: "+res.Err)
					ok = false
					break
				}
				d := applied[mcur]
				c.Count("dumps_after_use_compared", 1)
				if df := d.m.CheckDump("C17:after-use", res.Tables, d.grave, true); df != nil {
					fail(df.Sig, fmt.Sprintf("database %s after USE: %s", mcur, df.What))
					ok = false
				}
			case "show":
				history = append(history, "SHOW DATABASES")
				var want []string
				for k := range created {
					want = append(want, k)
				}
				sort.Strings(want)
				var got []string
				for _, g := range res.Strs {
					got = append(got, strings.ToLower(g))
				}
				sort.Strings(got)
				if res.Err != "" || strings.Join(want, ",") != strings.Join(got, ",") {
					fail("C17:show-databases-differs", fmt.Sprintf("SHOW DATABASES lists %v (err %q), created: %v", res.Strs, res.Err, want))
					ok = false
				}
				c.Count("show_databases_compared", 1)
			case "stmt":
				history = append(history, clip(st.text, 200))
				if mcur == "" {
					if res.Err == "" {
						fail("C17:statement-without-database-accepted", "a statement succeeded with no database selected: "+st.text)
						ok = false
					}
					c.Count("statement_without_database", 1)
					break
				}
				if lastFailedUse {
					c.Count("failed_use_then_dml", 1)
				}
				if lastWasUse == "same" && st.stmt != nil && st.stmt.Kind == "insert" {
					sinceUseSameInsert = true
				}
				d := applied[mcur]
				if st.stmt == nil {
					break
				}
				f, _, _, err := d.m.Plan(st.stmt)
				if err != nil || f != "" {
					// generated against another interleaving: the generator's model
					// and the oracle's model agree by construction; anything else
					// is a harness problem
					c.Inconclusive("model", fmt.Sprintf("statement not applicable in the oracle model: %s %v", f, err))
					ok = false
					break
				}
				if res.Err != "" {
					fail("C17:statement-failed:"+st.stmt.Kind+":"+errKind(res.Err), fmt.Sprintf("in database %s: %s returned %s", mcur, clip(st.text, 200), res.Err))
					ok = false
					break
				}
				before := map[int]uint32{}
				if t := d.m.Table(st.stmt.Table); t != nil {
					for _, row := range t.Rows {
						before[row.Seq] = row.ID
					}
				}
				d.m.Apply(st.stmt)
				if t := d.m.Table(st.stmt.Table); t != nil && st.stmt.Kind == "delete" {
					left := map[int]bool{}
					for _, row := range t.Rows {
						left[row.Seq] = true
					}
					for sq, id := range before {
						if !left[sq] {
							d.grave.Add(t.Name, id)
						}
					}
				}
				c.Count("statements", 1)
			case "close":
				if res.Err != "" {
					fail("C17:close-failed:"+errKind(res.Err), res.Err)
					ok = false
				}
			case "pause":
				if sinceUseSameInsert {
					c.Count("reuse_same_then_insert_then_pause", 1)
					sinceUseSameInsert = false
					nontrivial = true
				}
				if lastWasUse == "other" {
					c.Count("switch_then_pause", 1)
					nontrivial = true
				}
			}
			if !ok {
				break
			}
		}
		if !ok {
			break
		}
		if out.Died && how == "clean" || (out.Died && out.LastBeg < len(s.ops)-1) {
			if out.TimedOut {
				c.Inconclusive("watchdog", "C17 segment exceeded the watchdog")
			} else {
				q := ""
				if out.LastBeg >= 0 && out.LastBeg < len(s.ops) {
					q = s.ops[out.LastBeg].K + " " + string(s.ops[out.LastBeg].SQL)
				}
				fail("C17:process-died:"+errClass(core.FatalTail(out.Stderr)), fmt.Sprintf("process died in %s: %s", q, core.FatalTail(out.Stderr)))
			}
			break
		}
		c.Count("restart_"+how, 1)
		history = append(history, "-- restart ("+how+") --")
		// restart boundary: the process is gone, the directory is quiescent
		cp := filepath.Join(dir, fmt.Sprintf("copy%d", seg))
		if err := core.CopyTree(filepath.Join(dir, "data"), filepath.Join(cp, "data")); err != nil {
			c.Inconclusive("harness", "copy failed: "+err.Error())
			break
		}
		var v script
		v.cfg(true, 0)
		v.k("init")
		type vm struct{ db string }
		var vmeta []string
		var keys []string
		for k := range created {
			keys = append(keys, k)
		}
		sort.Strings(keys)
		for _, k := range keys {
			v.sql("USE " + c17Spell(k))
			v.k("dump")
			vmeta = append(vmeta, k)
		}
		vo := core.RunScript(drv, cp, v.ops, 60*time.Second)
		removeAll(cp)
		if vo.Died || (len(vo.Res) > 1 && vo.Res[1].Failed()) {
			msg := core.FatalTail(vo.Stderr)
			if len(vo.Res) > 1 {
				msg += vo.Res[1].Err + vo.Res[1].Panic
			}
			fail("C17:restart-boundary:recovery-failed:"+errKind(msg), "at the restart boundary the data directory cannot be recovered: "+msg)
			break
		}
		bad := false
		for i, k := range vmeta {
			ur, dr := vo.Res[2+2*i], vo.Res[3+2*i]
			if ur.Failed() || dr.Failed() {
				fail("C17:restart-boundary:database-unreadable:"+errKind(ur.Err+ur.Panic+dr.Err+dr.Panic), fmt.Sprintf("database %s at the restart boundary: %s%s%s%s", k, ur.Err, ur.Panic, dr.Err, dr.Panic))
				bad = true
				break
			}
			d := applied[k]
			if df := d.m.CheckDump("C17:restart-boundary", dr.Tables, d.grave, true); df != nil {
				fail(df.Sig, fmt.Sprintf("database %s at the restart boundary (%s): %s", k, how, df.What))
				bad = true
				break
			}
			c.Count("restart_boundary_databases_verified", 1)
		}
		if bad {
			break
		}
		mcur = ""
		lastWasUse, lastFailedUse, sinceUseSameInsert = "", false, false
		pos = end
	}
	c.Count("scripts", 1)
	c.Eval(fmt.Sprintf("script-%d", idx), nontrivial)
	if len(history) > 12 {
		c.Sample(3, map[string]interface{}{"script": idx, "first_steps": history[:12]})
	}
}
