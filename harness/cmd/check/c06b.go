package main

import (
	"fmt"
	"sort"
	"strings"
	"time"

	"verif/harness/internal/core"
	"verif/harness/internal/gen"
	"verif/harness/internal/model"
	"verif/harness/proto"
)

// runC06Catalog: joins over the catalog tables, asked again after every
// statement of ONE session in which tables are created and filled. The
// expectation comes from the model of what was created, not from another read
// of the catalog: a join that shows yesterday's catalog is wrong even if every
// other read shows yesterday's catalog too.
func runC06Catalog(c *core.Ctx, drv string, idx int) {
	r := core.NewRand(core.SubSeed(c.Seed, "C06K", idx))
	dir := c.CaseDir("c06k")
	defer removeAll(dir)
	h := gen.NewHist(r, true)
	h.MaxTables = r.Range(3, 9)
	var s script
	s.open(true, 0, "d1", true)
	m := model.NewDB()
	type probe struct {
		op, step int
		kind     string
		text     string
		want     []string
	}
	var probes []probe
	var hist []string
	queries := map[string]string{
		"inner": "SELECT p.table_name, s.field_name FROM sys_pages p JOIN sys_schema s ON p.table_name = s.table_name",
		"left":  "SELECT p.table_name, s.field_name FROM sys_pages p LEFT JOIN sys_schema s ON p.table_name = s.table_name",
		"right": "SELECT s.table_name, s.field_name FROM sys_pages p RIGHT JOIN sys_schema s ON p.table_name = s.table_name",
		"self":  "SELECT x.table_name, y.table_name FROM sys_pages x JOIN sys_pages y ON x.table_name = y.table_name",
	}
	kinds := []string{"inner", "left", "right", "self"}
	steps := r.Range(8, 20)
	for st := 0; st < steps; st++ {
		var stmt *proto.Stmt
		if st < 3 && len(m.Tables) < 2 {
			stmt = h.CreateTable()
			if f, _, _, err := h.DB.Apply(stmt); f != "" || err != nil {
				return
			}
		} else {
			stmt = h.Next()
		}
		if f, _, _, err := m.Apply(stmt); f != "" || err != nil {
			c.Inconclusive("generator", "C06 catalog session: statement rejected by the oracle model")
			return
		}
		s.stmt(stmt)
		hist = append(hist, clip(model.RenderStmt(stmt, model.Plain), 160))
		if r.Chance(1, 4) {
			s.k("flush")
		}
		for _, k := range kinds {
			if st > 0 && r.Chance(1, 3) {
				continue
			}
			var want []string
			for _, t := range m.Tables {
				if k == "self" {
					want = append(want, t.Name+"|"+t.Name)
					continue
				}
				for _, cl := range t.Cols {
					want = append(want, t.Name+"|"+cl.Name)
				}
			}
			sort.Strings(want)
			probes = append(probes, probe{op: s.query(queries[k]), step: st, kind: k, text: queries[k], want: want})
		}
	}
	out := core.RunScript(drv, dir, s.ops, 120*time.Second)
	if out.Died {
		if out.TimedOut {
			c.Inconclusive("watchdog", "C06 catalog session exceeded the watchdog")
		} else {
			c.Violation("C06:process-died:"+errClass(core.FatalTail(out.Stderr)), "driver died during catalog joins: "+core.FatalTail(out.Stderr), map[string]interface{}{"case": idx, "statements": hist})
		}
		return
	}
	user := map[string]bool{}
	for _, t := range m.Tables {
		user[t.Name] = true
	}
	for _, p := range probes {
		res := &out.Res[p.op]
		rp := map[string]interface{}{"case": idx, "statements_so_far": hist[:p.step+1], "query": p.text, "how": "one session, timer off; the join is asked after every statement"}
		if res.Panic != "" {
			c.Violation("C06:panic:"+res.Frame, res.Panic, rp)
			return
		}
		if res.Err != "" {
			c.Violation("C06:catalog-join:query-error", fmt.Sprintf("%s returned %s", p.text, res.Err), rp)
			return
		}
		var got []string
		for _, row := range res.Rows {
			if len(row.Vals) != 2 || row.Vals[0].K != 's' {
				continue
			}
			// (tables created later in the session are not in p.want; the
			// catalog's own entries are not judged)
			if !user[row.Vals[0].S] {
				continue
			}
			second := "<null>"
			if row.Vals[1].K == 's' {
				second = row.Vals[1].S
			}
			got = append(got, row.Vals[0].S+"|"+second)
		}
		// only tables that existed at that step
		exists := map[string]bool{}
		for _, w := range p.want {
			exists[strings.SplitN(w, "|", 2)[0]] = true
		}
		var gotNow []string
		for _, g := range got {
			if exists[strings.SplitN(g, "|", 2)[0]] {
				gotNow = append(gotNow, g)
			} else {
				gotNow = append(gotNow, "NOT-YET-CREATED:"+g)
			}
		}
		sort.Strings(gotNow)
		if strings.Join(gotNow, ",") != strings.Join(p.want, ",") {
			rp["expected_pairs_for_user_tables"], rp["observed_pairs_for_user_tables"] = p.want, gotNow
			c.Violation("C06:catalog-join:"+p.kind+":rows-differ", fmt.Sprintf("after %d statements the %s join over the catalog shows %d pairs for the tables created so far, %d expected", p.step+1, p.kind, len(gotNow), len(p.want)), rp)
			return
		}
		c.Count("catalog_joins_compared", 1)
	}
	c.Count("catalog_join_sessions", 1)
	c.Eval(fmt.Sprintf("catalog-joins-%d", idx), true)
}
