// Package proto defines the script/result protocol between the orchestrator
// (cmd/check, never links mkdb) and the driver (cmd/vdriver, links mkdb).
package proto

import (
	"encoding/hex"
	"encoding/json"
	"fmt"
	"strconv"
	"strings"
	"unicode/utf8"
)

// Val is one SQL value, exact: NULL, 64-bit integer, byte string, boolean.
type Val struct {
	K byte // 'n' null, 'i' int, 's' string, 'b' bool
	I int64
	S string
	B bool
}

func Null() Val            { return Val{K: 'n'} }
func Int(i int64) Val      { return Val{K: 'i', I: i} }
func Str(s string) Val     { return Val{K: 's', S: s} }
func Bool(b bool) Val      { return Val{K: 'b', B: b} }
func (v Val) IsNull() bool { return v.K == 'n' || v.K == 0 }

func (v Val) Equal(o Val) bool {
	if v.IsNull() || o.IsNull() {
		return v.IsNull() && o.IsNull()
	}
	if v.K != o.K {
		return false
	}
	switch v.K {
	case 'i':
		return v.I == o.I
	case 's':
		return v.S == o.S
	case 'b':
		return v.B == o.B
	}
	return false
}

// Enc is the canonical text form, also the JSON form.
func (v Val) Enc() string {
	switch v.K {
	case 'i':
		return "i" + strconv.FormatInt(v.I, 10)
	case 's':
		return "s" + hex.EncodeToString([]byte(v.S))
	case 'b':
		if v.B {
			return "bt"
		}
		return "bf"
	case 'x':
		return "x" + v.S
	}
	return "n"
}

// String is a human-readable form for reports.
func (v Val) String() string {
	switch v.K {
	case 'i':
		return strconv.FormatInt(v.I, 10)
	case 's':
		return strconv.Quote(v.S)
	case 'b':
		return strconv.FormatBool(v.B)
	case 'x':
		return "?" + v.S
	}
	return "NULL"
}

func (v Val) MarshalJSON() ([]byte, error) { return json.Marshal(v.Enc()) }

func (v *Val) UnmarshalJSON(b []byte) error {
	var s string
	if err := json.Unmarshal(b, &s); err != nil {
		return err
	}
	x, err := DecVal(s)
	if err != nil {
		return err
	}
	*v = x
	return nil
}

func DecVal(s string) (Val, error) {
	if s == "" {
		return Val{}, fmt.Errorf("empty value")
	}
	switch s[0] {
	case 'n':
		return Null(), nil
	case 'i':
		i, err := strconv.ParseInt(s[1:], 10, 64)
		return Int(i), err
	case 's':
		b, err := hex.DecodeString(s[1:])
		return Str(string(b)), err
	case 'b':
		return Bool(s == "bt"), nil
	case 'x': // a Go value the driver could not classify
		return Val{K: 'x', S: s[1:]}, nil
	}
	return Val{}, fmt.Errorf("bad value %q", s)
}

// Operand is a column reference or a literal.
type Operand struct {
	Col  string `json:"c,omitempty"`
	Qual string `json:"q,omitempty"`
	Lit  *Val   `json:"l,omitempty"`
}

// Cond is a boolean condition tree: Op is "or", "and" or a comparison
// operator (= != < <= > >=).
type Cond struct {
	Op  string   `json:"op"`
	L   *Cond    `json:"L,omitempty"`
	R   *Cond    `json:"R,omitempty"`
	LHS *Operand `json:"lhs,omitempty"`
	RHS *Operand `json:"rhs,omitempty"`
}

type ColDef struct {
	Name string `json:"n"`
	Type string `json:"t"` // int bigint varchar boolean
	Len  int64  `json:"len,omitempty"`
}

type SetItem struct {
	Col string `json:"c"`
	Val Val    `json:"v"`
}

// Stmt is a statement supplied as direct values (no SQL text).
type Stmt struct {
	Kind  string    `json:"kind"` // create insert update delete
	Table string    `json:"table"`
	Cols  []string  `json:"cols,omitempty"`
	Rows  [][]Val   `json:"rows,omitempty"`
	Defs  []ColDef  `json:"defs,omitempty"`
	Sets  []SetItem `json:"sets,omitempty"`
	Where *Cond     `json:"where,omitempty"`
	// RawVals, when set, replaces Rows[0] of an insert / the Sets values of
	// an update with Go values of deliberately wrong dynamic type:
	// "int" (Go int), "float", "bytes", "int32", "uint64".
	RawKinds []string `json:"raw,omitempty"`
}

// Op is one driver operation.
type Op struct {
	ID   int    `json:"id"`
	K    string `json:"k"`
	SQL  Text   `json:"sql,omitempty"`
	Stmt *Stmt  `json:"stmt,omitempty"`
	Dir  string `json:"dir,omitempty"`
	DB   string `json:"db,omitempty"`
	N    int    `json:"n,omitempty"`
	M    int    `json:"m,omitempty"`
	S    string `json:"s,omitempty"`
	// generic payload for specialised ops (lru scripts, node specs, ...)
	Raw json.RawMessage `json:"raw,omitempty"`
}

type Row struct {
	ID   uint32 `json:"id"`
	Vals []Val  `json:"v"`
}

type TableDump struct {
	Name string   `json:"name"`
	Cols []string `json:"cols"`
	Rows []Row    `json:"rows"`
	Err  string   `json:"err,omitempty"`
}

type Page struct {
	Off      uint64   `json:"off"`
	Leaf     bool     `json:"leaf"`
	LSN      uint64   `json:"lsn"`
	Dirty    bool     `json:"dirty,omitempty"`
	Cached   bool     `json:"cached,omitempty"`
	Keys     []uint32 `json:"keys"`
	Deleted  []bool   `json:"del,omitempty"`
	ValLens  []int    `json:"vl,omitempty"`
	ValHash  []uint64 `json:"vh,omitempty"`
	Children []uint64 `json:"ch,omitempty"`
	Right    uint64   `json:"right,omitempty"`
	HasL     bool     `json:"hl,omitempty"`
	HasR     bool     `json:"hr,omitempty"`
	LSib     uint64   `json:"ls,omitempty"`
	RSib     uint64   `json:"rs,omitempty"`
	Stored   int      `json:"stored,omitempty"`
	Err      string   `json:"err,omitempty"`
}

type Tree struct {
	Table string `json:"table"`
	Root  uint64 `json:"root"`
	Pages []Page `json:"pages"`
	// LookupMiss lists live keys the engine's own point lookup failed to
	// find, LookupGhost tombstoned keys it did find.
	LookupMiss  []uint32 `json:"miss,omitempty"`
	LookupGhost []uint32 `json:"ghost,omitempty"`
	ScanLeft    []uint32 `json:"scanl,omitempty"`
	NoLookups   bool     `json:"nolookups,omitempty"`
	Err         string   `json:"err,omitempty"`
}

type Header struct {
	LastKey  uint32 `json:"lastKey"`
	PTRoot   uint64 `json:"ptRoot"`
	NextFree uint64 `json:"nextFree"`
	NextLSN  uint64 `json:"nextLSN"`
}

// Event is one hook event recorded by the driver.
type Event struct {
	Seq  int    `json:"seq"`
	G    int64  `json:"g"` // goroutine id
	K    string `json:"k"`
	Off  uint64 `json:"off,omitempty"`
	A    uint64 `json:"a,omitempty"`
	Stmt int    `json:"stmt,omitempty"`
}

// Res is the result of one Op.
type Res struct {
	ID     int             `json:"id"`
	Err    string          `json:"err,omitempty"`
	Panic  string          `json:"panic,omitempty"`
	Frame  string          `json:"frame,omitempty"` // top mkdb frame of a panic
	Stack  string          `json:"stack,omitempty"`
	Cols   []string        `json:"cols,omitempty"`
	Quals  []string        `json:"quals,omitempty"`
	Rows   []Row           `json:"rows,omitempty"`
	Tables []TableDump     `json:"tables,omitempty"`
	Trees  []Tree          `json:"trees,omitempty"`
	Hdr    *Header         `json:"hdr,omitempty"`
	Count  int             `json:"count,omitempty"`
	N      int64           `json:"n,omitempty"`
	M      int64           `json:"m,omitempty"`
	Strs   []string        `json:"strs,omitempty"`
	Events []Event         `json:"events,omitempty"`
	Raw    json.RawMessage `json:"raw,omitempty"`
}

func (r *Res) Failed() bool { return r.Err != "" || r.Panic != "" }

// ---------- neutral statement form (C05-C07, C10, C18) ----------

// A Cond with Op "val" is a bare operand (LHS) used as an expression.

type NItem struct {
	Kind  string   `json:"kind"`           // expr count avg
	Expr  *Cond    `json:"expr,omitempty"` // kind expr
	Arg   *Operand `json:"arg,omitempty"`  // count(col) / avg(col); nil for count(*)
	Alias string   `json:"alias,omitempty"`
}

type NTable struct {
	Name  string `json:"name"`
	Alias string `json:"alias,omitempty"`
	Join  string `json:"join,omitempty"` // "" for the first table; inner left right
	On    *Cond  `json:"on,omitempty"`
}

type NOrder struct {
	Col  Operand `json:"col"`
	Desc bool    `json:"desc,omitempty"`
}

type NSet struct {
	Col string  `json:"col"`
	Src Operand `json:"src"`
}

type NStmt struct {
	Kind      string    `json:"kind"` // select insert update delete create_table create_db use show
	Name      string    `json:"name,omitempty"`
	Star      bool      `json:"star,omitempty"`
	Items     []NItem   `json:"items,omitempty"`
	From      []NTable  `json:"from,omitempty"`
	Where     *Cond     `json:"where,omitempty"`
	GroupBy   []Operand `json:"group,omitempty"`
	OrderBy   []NOrder  `json:"order,omitempty"`
	HasLimit  bool      `json:"hasLimit,omitempty"`
	Limit     int       `json:"limit,omitempty"`
	HasOffset bool      `json:"hasOffset,omitempty"`
	Offset    int       `json:"offset,omitempty"`
	Cols      []string  `json:"cols,omitempty"`
	Rows      [][]Val   `json:"rows,omitempty"`
	Sets      []NSet    `json:"sets,omitempty"`
	Defs      []ColDef  `json:"defs,omitempty"`
	Other     string    `json:"other,omitempty"` // anything the converter could not classify
}

// Text is a byte string that survives JSON even when it is not valid UTF-8.
type Text string

const hexMark = "\x00\x01HEX:"

func (t Text) MarshalJSON() ([]byte, error) {
	if utf8.ValidString(string(t)) && !strings.HasPrefix(string(t), hexMark) {
		return json.Marshal(string(t))
	}
	return json.Marshal(hexMark + hex.EncodeToString([]byte(t)))
}

func (t *Text) UnmarshalJSON(b []byte) error {
	var s string
	if err := json.Unmarshal(b, &s); err != nil {
		return err
	}
	if strings.HasPrefix(s, hexMark) {
		raw, err := hex.DecodeString(s[len(hexMark):])
		if err != nil {
			return err
		}
		s = string(raw)
	}
	*t = Text(s)
	return nil
}
