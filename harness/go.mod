module verif/harness

go 1.23

require github.com/mk6i/mkdb v0.0.0

replace github.com/mk6i/mkdb => /repo
