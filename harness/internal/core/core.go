// Package core holds what every check shares: seeds, scratch space, driver
// build and execution, verdict bookkeeping, known findings, evidence.
package core

import (
	"bufio"
	"bytes"
	"crypto/sha256"
	"encoding/binary"
	"encoding/json"
	"fmt"
	"os"
	"os/exec"
	"path/filepath"
	"sort"
	"strconv"
	"strings"
	"sync"
	"sync/atomic"
	"syscall"
	"time"
	"verif/harness/internal/sparse"

	"verif/harness/proto"
)

// ---------- deterministic PRNG ----------

type Rand struct{ s uint64 }

func NewRand(seed uint64) *Rand { return &Rand{s: seed} }

func (r *Rand) U64() uint64 {
	r.s += 0x9e3779b97f4a7c15
	z := r.s
	z = (z ^ (z >> 30)) * 0xbf58476d1ce4e5b9
	z = (z ^ (z >> 27)) * 0x94d049bb133111eb
	return z ^ (z >> 31)
}
func (r *Rand) Intn(n int) int {
	if n <= 0 {
		return 0
	}
	return int(r.U64() % uint64(n))
}
func (r *Rand) Range(lo, hi int) int     { return lo + r.Intn(hi-lo+1) } // inclusive
func (r *Rand) Bool() bool               { return r.U64()&1 == 1 }
func (r *Rand) Chance(num, den int) bool { return r.Intn(den) < num }
func (r *Rand) Pick(n int) int           { return r.Intn(n) }

// SubSeed derives the seed of case i of property p.
func SubSeed(seed int64, p string, i int) uint64 {
	h := sha256.New()
	fmt.Fprintf(h, "%d/%s/%d", seed, p, i)
	return binary.LittleEndian.Uint64(h.Sum(nil)[:8])
}

// ---------- context ----------

type Violation struct {
	Sig    string
	What   string
	Replay string
}

type Finding struct {
	Property  string `json:"property"`
	Signature string `json:"signature"`
	Status    string `json:"status"` // known | fixed
	Commit    string `json:"commit,omitempty"`
	What      string `json:"what"`
}

type Ctx struct {
	Prop    string
	Tier    string
	Seed    int64
	Root    string // /verif
	OutRoot string // where evidence/ and replays/ are written
	Scratch string
	Driver  string
	Level   string
	Rule    string
	Assume  []string
	Workers int

	mu          sync.Mutex
	violations  []Violation
	vioSigs     map[string]int
	vioTotal    int64
	knownSeen   map[string]int
	inconcl     []string
	counters    map[string]int64
	samples     []interface{}
	distinct    map[string]struct{}
	evaluations int64
	findings    []Finding
	start       time.Time
	extra       map[string]interface{}
	cases       int64
}

func Quick(c *Ctx) bool { return c.Tier != "thorough" }

func NewCtx(prop, tier string) *Ctx {
	seed := int64(1)
	if s := os.Getenv("VERIF_SEED"); s != "" {
		if v, err := strconv.ParseInt(s, 10, 64); err == nil {
			seed = v
		}
	}
	root := os.Getenv("VERIF_ROOT")
	if root == "" {
		root = "/verif"
	}
	c := &Ctx{
		Prop: prop, Tier: tier, Seed: seed, Root: root,
		vioSigs: map[string]int{}, knownSeen: map[string]int{},
		counters: map[string]int64{}, distinct: map[string]struct{}{},
		start: time.Now(), extra: map[string]interface{}{}, Workers: 16,
		Level: "exploration",
	}
	if w := os.Getenv("VERIF_WORKERS"); w != "" {
		if v, err := strconv.Atoi(w); err == nil && v > 0 {
			c.Workers = v
		}
	}
	base := "/dev/shm"
	if st, err := os.Stat(base); err != nil || !st.IsDir() {
		base = os.TempDir()
	}
	if b := os.Getenv("VERIF_SCRATCH"); b != "" {
		base = b
	}
	d, err := os.MkdirTemp(base, "verif-"+prop+"-")
	if err != nil {
		d, err = os.MkdirTemp("", "verif-"+prop+"-")
		if err != nil {
			fmt.Println("cannot create scratch dir:", err)
			os.Exit(3)
		}
	}
	c.Scratch = d
	// scratch lives on a memory-backed file system: what a run that was killed
	// left behind must not pile up. Every scratch directory names its owner;
	// directories whose owner is gone are removed.
	os.WriteFile(filepath.Join(d, ".pid"), []byte(strconv.Itoa(os.Getpid())), 0644)
	if ents, err := os.ReadDir(filepath.Dir(d)); err == nil {
		for _, e := range ents {
			if !e.IsDir() || !strings.HasPrefix(e.Name(), "verif-") {
				continue
			}
			old := filepath.Join(filepath.Dir(d), e.Name())
			b, err := os.ReadFile(filepath.Join(old, ".pid"))
			if err != nil {
				continue
			}
			pid, err := strconv.Atoi(strings.TrimSpace(string(b)))
			if err != nil || pid == os.Getpid() {
				continue
			}
			if err := syscall.Kill(pid, 0); err == syscall.ESRCH {
				os.RemoveAll(old)
			}
		}
	}
	c.loadFindings()
	c.OutRoot = root
	if repo := os.Getenv("VERIF_REPO"); (repo != "" && repo != "/repo") || os.Getenv("VERIF_TRIAL") != "" {
		// a trial against another checkout (seeded change): its evidence and
		// replays must not overwrite those of the real tree
		c.OutRoot = filepath.Join(os.TempDir(), "verif-trial")
	}
	return c
}

func (c *Ctx) loadFindings() {
	b, err := os.ReadFile(filepath.Join(c.Root, "known_findings.json"))
	if err != nil {
		return
	}
	var f struct {
		Findings []Finding `json:"findings"`
	}
	if err := json.Unmarshal(b, &f); err != nil {
		fmt.Println("known_findings.json unreadable:", err)
		os.Exit(3)
	}
	c.findings = f.Findings
}

func (c *Ctx) Cleanup() { os.RemoveAll(c.Scratch) }

// BuildDriver builds cmd/vdriver from /repo's working tree with the verif tag.
func (c *Ctx) BuildDriver(race bool) (string, error) {
	name := "vdriver"
	args := []string{"build", "-tags", "verif"}
	if race {
		name = "vdriver-race"
		args = append(args, "-race")
	}
	outp := filepath.Join(c.Scratch, name)
	if os.Getenv("VERIF_COVER") != "" {
		// diagnostic only: statement coverage of mkdb under the workloads
		args = append(args, "-cover", "-coverpkg=verif/harness/cmd/vdriver,github.com/mk6i/mkdb/storage,github.com/mk6i/mkdb/engine,github.com/mk6i/mkdb/sql")
	}
	if repo := os.Getenv("VERIF_REPO"); repo != "" && repo != "/repo" {
		// build against another checkout of mkdb (used to try seeded changes
		// in a scratch worktree without touching /repo)
		gm, err := os.ReadFile(filepath.Join(c.Root, "harness", "go.mod"))
		if err != nil {
			return "", err
		}
		mf := filepath.Join(c.Scratch, "alt.mod")
		if err := os.WriteFile(mf, []byte(strings.Replace(string(gm), "=> /repo", "=> "+repo, 1)), 0644); err != nil {
			return "", err
		}
		if gs, err := os.ReadFile(filepath.Join(c.Root, "harness", "go.sum")); err == nil {
			os.WriteFile(filepath.Join(c.Scratch, "alt.sum"), gs, 0644)
		}
		args = append(args, "-modfile="+mf)
	}
	args = append(args, "-o", outp, "./cmd/vdriver")
	cmd := exec.Command("go", args...)
	cmd.Dir = filepath.Join(c.Root, "harness")
	cmd.Env = GoEnv()
	b, err := cmd.CombinedOutput()
	if err != nil {
		return "", fmt.Errorf("go build failed: %v\n%s", err, b)
	}
	return outp, nil
}

func GoEnv() []string {
	env := os.Environ()
	env = append(env, "GOFLAGS=-mod=mod", "GOPROXY=off", "GOSUMDB=off", "GOTOOLCHAIN=local", "CGO_ENABLED=1")
	return env
}

func (c *Ctx) Count(key string, n int64) {
	c.mu.Lock()
	c.counters[key] += n
	c.mu.Unlock()
}

func (c *Ctx) Max(key string, n int64) {
	c.mu.Lock()
	if n > c.counters[key] {
		c.counters[key] = n
	}
	c.mu.Unlock()
}

func (c *Ctx) Counter(key string) int64 {
	c.mu.Lock()
	defer c.mu.Unlock()
	return c.counters[key]
}

func (c *Ctx) Extra(key string, v interface{}) {
	c.mu.Lock()
	c.extra[key] = v
	c.mu.Unlock()
}

// Eval records one executed case; key identifies it for distinctness, and
// nontrivial says whether it counts by the property's own rule.
func (c *Ctx) Eval(key string, nontrivial bool) {
	c.mu.Lock()
	c.evaluations++
	if nontrivial {
		h := sha256.Sum256([]byte(key))
		c.distinct[string(h[:12])] = struct{}{}
	}
	c.mu.Unlock()
}

func (c *Ctx) Sample(max int, s interface{}) {
	c.mu.Lock()
	if len(c.samples) < max {
		c.samples = append(c.samples, s)
	}
	c.mu.Unlock()
}

func (c *Ctx) Inconclusive(kind, detail string) {
	c.mu.Lock()
	if len(c.inconcl) < 50 {
		c.inconcl = append(c.inconcl, kind+": "+detail)
	}
	c.counters["inconclusive"]++
	c.mu.Unlock()
}

// Violation records a refuting observation. sig must be deterministic in what
// failed, not in the random input. replay is written to a file.
func (c *Ctx) Violation(sig, what string, replay interface{}) {
	c.mu.Lock()
	defer c.mu.Unlock()
	for _, f := range c.findings {
		if f.Property == c.Prop && f.Status == "known" && f.Signature == sig {
			c.knownSeen[sig]++
			if c.knownSeen[sig] == 1 {
				fmt.Printf("KNOWN-FINDING: property=%s %s [%s]\n", c.Prop, f.What, sig)
			}
			return
		}
	}
	c.vioSigs[sig]++
	c.vioTotal++
	if c.vioTotal == 1 {
		atomic.StoreInt64(&firstViolationAt, time.Now().UnixNano())
	}
	if c.vioTotal == abortAfter {
		// a tree this broken needs no further witnesses, and every further case
		// on it may cost minutes (runaway scans, dead processes): the rest of
		// the work is skipped, the verdict is already "violated"
		atomic.StoreInt32(&aborted, 1)
		c.counters["stopped_early_after_this_many_violations"] = abortAfter
	}
	if c.vioSigs[sig] > 3 {
		return // do not flood: first three witnesses per signature
	}
	dir := filepath.Join(c.OutRoot, "replays", c.Prop)
	os.MkdirAll(dir, 0755)
	path := filepath.Join(dir, fmt.Sprintf("%d-%s-%d.json", c.Seed, sanitize(sig), c.vioSigs[sig]))
	b, _ := json.MarshalIndent(map[string]interface{}{
		"property": c.Prop, "signature": sig, "what": what, "seed": c.Seed, "tier": c.Tier, "replay": replay,
	}, "", " ")
	os.WriteFile(path, b, 0644)
	c.violations = append(c.violations, Violation{Sig: sig, What: what, Replay: path})
	fmt.Printf("VIOLATION property=%s replay=%s\n", c.Prop, path)
	fmt.Printf("  signature: %s\n  what: %s\n", sig, trunc(what, 600))
}

func trunc(s string, n int) string {
	if len(s) > n {
		return s[:n] + "..."
	}
	return s
}

func sanitize(s string) string {
	var b strings.Builder
	for _, r := range s {
		if r >= 'a' && r <= 'z' || r >= 'A' && r <= 'Z' || r >= '0' && r <= '9' || r == '-' || r == '_' {
			b.WriteRune(r)
		} else {
			b.WriteByte('_')
		}
	}
	out := b.String()
	if len(out) > 80 {
		out = out[:80]
	}
	return out
}

type Floor struct {
	Key string
	Min int64
}

// Finish writes the evidence file and returns the exit code.
func (c *Ctx) Finish(floors []Floor) int {
	c.mu.Lock()
	defer c.mu.Unlock()
	wall := time.Since(c.start).Seconds()
	cov := map[string]interface{}{}
	keys := make([]string, 0, len(c.counters))
	for k := range c.counters {
		keys = append(keys, k)
	}
	sort.Strings(keys)
	for _, k := range keys {
		cov[k] = c.counters[k]
	}
	for k, v := range c.extra {
		cov[k] = v
	}
	cov["evaluations"] = c.evaluations
	cov["distinct_nontrivial"] = len(c.distinct)
	cov["rule"] = c.Rule
	if len(c.samples) == 0 {
		c.samples = append(c.samples, "no sample recorded")
	}
	cov["samples"] = c.samples
	cov["exhaustive"] = false
	var missed []string
	for _, f := range floors {
		if c.counters[f.Key] < f.Min {
			missed = append(missed, fmt.Sprintf("%s=%d<%d", f.Key, c.counters[f.Key], f.Min))
		}
	}
	cov["coverage_floors_missed"] = missed
	cov["inconclusive_cases"] = c.inconcl
	ks := map[string]int{}
	for k, v := range c.knownSeen {
		ks[k] = v
	}
	cov["known_findings_seen"] = ks
	vs := map[string]int{}
	for k, v := range c.vioSigs {
		vs[k] = v
	}
	cov["violation_signatures"] = vs
	ev := map[string]interface{}{
		"property_id": c.Prop,
		"tier":        c.Tier,
		"seed":        c.Seed,
		"level":       c.Level,
		"coverage":    cov,
		"assumptions": c.Assume,
		"wall_s":      wall,
		"violations":  len(c.vioSigs),
	}
	os.MkdirAll(filepath.Join(c.OutRoot, "evidence"), 0755)
	b, _ := json.MarshalIndent(ev, "", " ")
	if err := os.WriteFile(filepath.Join(c.OutRoot, "evidence", c.Prop+".json"), b, 0644); err != nil {
		fmt.Println("cannot write evidence:", err)
	}
	fmt.Printf("%s tier=%s seed=%d: evaluations=%d distinct_nontrivial=%d violations=%d known=%d inconclusive=%d wall=%.1fs\n",
		c.Prop, c.Tier, c.Seed, c.evaluations, len(c.distinct), len(c.vioSigs), len(c.knownSeen), c.counters["inconclusive"], wall)
	for _, k := range keys {
		fmt.Printf("  %s=%d\n", k, c.counters[k])
	}
	if len(c.vioSigs) > 0 {
		return 1
	}
	inc := c.counters["inconclusive"]
	if len(missed) > 0 || (c.evaluations > 0 && inc*50 > c.evaluations) || c.evaluations == 0 {
		fmt.Printf("INCONCLUSIVE property=%s floors_missed=%v inconclusive=%d evaluations=%d\n", c.Prop, missed, inc, c.evaluations)
		for _, s := range c.inconcl {
			fmt.Println("  ", trunc(s, 300))
		}
		return 2
	}
	return 0
}

// ---------- driver execution ----------

type RunOut struct {
	Res      []proto.Res
	LastBeg  int  // id of the last operation begun (-1: none)
	Died     bool // process ended before finishing the script
	TimedOut bool
	Stderr   string
	ExitErr  string
}

// ByID returns the result of op id, or nil.
func (r *RunOut) ByID(id int) *proto.Res {
	for i := range r.Res {
		if r.Res[i].ID == id {
			return &r.Res[i]
		}
	}
	return nil
}

var scriptSeq int64

// RunScript executes ops in a fresh driver process with working directory cwd.
func RunScript(bin, cwd string, ops []proto.Op, timeout time.Duration, env ...string) *RunOut {
	return RunScriptVia(nil, bin, cwd, ops, timeout, env...)
}

// RunScriptVia is RunScript with the driver started through another program
// (via = that program and its arguments, e.g. strace with its options).
func RunScriptVia(via []string, bin, cwd string, ops []proto.Op, timeout time.Duration, env ...string) *RunOut {
	ro := &RunOut{LastBeg: -1}
	n := atomic.AddInt64(&scriptSeq, 1)
	sp := filepath.Join(cwd, fmt.Sprintf(".script-%d.jsonl", n))
	var buf bytes.Buffer
	enc := json.NewEncoder(&buf)
	for i := range ops {
		enc.Encode(&ops[i])
	}
	if err := os.WriteFile(sp, buf.Bytes(), 0644); err != nil {
		ro.Died, ro.ExitErr = true, "HARNESS: "+err.Error()
		return ro
	}
	defer os.Remove(sp)
	cmd := exec.Command(bin, sp)
	if len(via) > 0 {
		cmd = exec.Command(via[0], append(append([]string{}, via[1:]...), bin, sp)...)
	}
	cmd.Dir = cwd
	cmd.Env = append(os.Environ(), env...)
	if cd := os.Getenv("VERIF_COVER"); cd != "" {
		cmd.Env = append(cmd.Env, "GOCOVERDIR="+cd)
	}
	var stderr bytes.Buffer
	cmd.Stderr = &limitWriter{w: &stderr, n: 1 << 16}
	stdout, err := cmd.StdoutPipe()
	if err != nil {
		ro.Died, ro.ExitErr = true, "HARNESS: "+err.Error()
		return ro
	}
	if err := cmd.Start(); err != nil {
		ro.Died, ro.ExitErr = true, "HARNESS: "+err.Error()
		return ro
	}
	done := make(chan struct{})
	var timedOut int32
	go func() {
		select {
		case <-done:
		case <-time.After(timeout):
			atomic.StoreInt32(&timedOut, 1)
			cmd.Process.Kill()
		}
	}()
	rd := bufio.NewReaderSize(stdout, 1<<20)
	total := 0
	for {
		line, err := rd.ReadBytes('\n')
		total += len(line)
		if total > 256<<20 {
			// a defect can make mkdb return garbage of absurd size; the
			// orchestrator must survive it
			cmd.Process.Kill()
			ro.ExitErr = "HARNESS: driver output exceeded 256 MiB; "
			break
		}
		if len(line) > 0 {
			if line[0] == 'B' && len(line) > 2 && line[1] == ' ' {
				id, _ := strconv.Atoi(strings.TrimSpace(string(line[2:])))
				ro.LastBeg = id
			} else if line[0] == '{' {
				var r proto.Res
				if jerr := json.Unmarshal(line, &r); jerr == nil {
					ro.Res = append(ro.Res, r)
				} else {
					ro.ExitErr = "HARNESS: bad result line: " + jerr.Error()
				}
			}
		}
		if err != nil {
			break
		}
	}
	werr := cmd.Wait()
	close(done)
	ro.TimedOut = atomic.LoadInt32(&timedOut) == 1
	ro.Stderr = stderr.String()
	if werr != nil {
		ro.ExitErr += werr.Error()
	}
	if len(ro.Res) < len(ops) {
		ro.Died = true
	}
	return ro
}

type limitWriter struct {
	w *bytes.Buffer
	n int
}

func (l *limitWriter) Write(p []byte) (int, error) {
	if l.w.Len() < l.n {
		k := l.n - l.w.Len()
		if k > len(p) {
			k = len(p)
		}
		l.w.Write(p[:k])
	}
	return len(p), nil
}

// ParallelFor runs f(i) for i in [0,n) on up to workers goroutines.
// abortAfter violations (counting every witness) the remaining cases of a run
// are skipped.
const abortAfter = 60

var aborted int32

// firstViolationAt: once a violation has been reported the verdict is fixed;
// the run goes on collecting witnesses for abortGrace and then skips what is
// left (a broken tree can make every further case cost minutes).
var firstViolationAt int64

const abortGrace = 45 * time.Second

// Aborted reports whether the remaining work of the run should be skipped.
func Aborted() bool {
	if atomic.LoadInt32(&aborted) == 1 {
		return true
	}
	t := atomic.LoadInt64(&firstViolationAt)
	return t != 0 && time.Since(time.Unix(0, t)) > abortGrace
}

func ParallelFor(n, workers int, f func(i int)) {
	if workers < 1 {
		workers = 1
	}
	var next int64 = -1
	var wg sync.WaitGroup
	for w := 0; w < workers; w++ {
		wg.Add(1)
		go func() {
			defer wg.Done()
			for {
				i := int(atomic.AddInt64(&next, 1))
				if i >= n || Aborted() {
					return
				}
				f(i)
			}
		}()
	}
	wg.Wait()
}

// CaseDir creates a fresh working directory for a case.
func (c *Ctx) CaseDir(tag string) string {
	n := atomic.AddInt64(&c.cases, 1)
	d := filepath.Join(c.Scratch, fmt.Sprintf("%s-%d", tag, n))
	os.MkdirAll(d, 0755)
	return d
}

func FatalTail(s string) string {
	// first line of a Go runtime fatal error / panic in stderr
	for _, l := range strings.Split(s, "\n") {
		if strings.HasPrefix(l, "fatal error:") || strings.HasPrefix(l, "panic:") || strings.HasPrefix(l, "runtime:") {
			return l
		}
	}
	return trunc(s, 200)
}

// CopyTree copies a directory tree (plain files and directories).
func CopyTree(src, dst string) error {
	return filepath.Walk(src, func(p string, info os.FileInfo, err error) error {
		if err != nil {
			return err
		}
		rel, _ := filepath.Rel(src, p)
		target := filepath.Join(dst, rel)
		if info.IsDir() {
			return os.MkdirAll(target, 0755)
		}
		return sparse.CopyFile(p, target)
	})
}
