package model

import (
	"fmt"
	"math"
	"math/big"
	"sort"
	"strings"

	"verif/harness/proto"
)

// ---------- canonical form of a neutral statement (C10) ----------

func canonOperand(o *proto.Operand) string {
	if o == nil {
		return "<nil>"
	}
	if o.Lit != nil {
		return "lit:" + o.Lit.Enc()
	}
	if o.Qual != "" {
		return "col:" + o.Qual + "." + o.Col
	}
	return "col:" + o.Col
}

// flatten collects the operands of nested op nodes (any associativity).
func flatten(c *proto.Cond, op string, out *[]*proto.Cond) {
	if c != nil && c.Op == op {
		flatten(c.L, op, out)
		flatten(c.R, op, out)
		return
	}
	*out = append(*out, c)
}

// CanonCond renders a condition with AND/OR flattened, so that every correct
// associativity of a chain compares equal while a wrong precedence does not.
func CanonCond(c *proto.Cond) string {
	if c == nil {
		return "<nil>"
	}
	switch c.Op {
	case "or", "and":
		var parts []*proto.Cond
		flatten(c, c.Op, &parts)
		var s []string
		for _, p := range parts {
			s = append(s, CanonCond(p))
		}
		return strings.ToUpper(c.Op) + "[" + strings.Join(s, " ; ") + "]"
	case "val":
		return canonOperand(c.LHS)
	}
	return "(" + canonOperand(c.LHS) + " " + c.Op + " " + canonOperand(c.RHS) + ")"
}

// Canon renders a statement for comparison.
func Canon(n *proto.NStmt) string {
	var b strings.Builder
	fmt.Fprintf(&b, "%s name=%q", n.Kind, n.Name)
	if n.Other != "" {
		fmt.Fprintf(&b, " OTHER=%q", n.Other)
	}
	switch n.Kind {
	case "select":
		fmt.Fprintf(&b, " star=%v items=[", n.Star)
		for _, it := range n.Items {
			switch it.Kind {
			case "expr":
				b.WriteString(CanonCond(it.Expr))
			default:
				b.WriteString(it.Kind + "(" + func() string {
					if it.Arg == nil {
						return "*"
					}
					return canonOperand(it.Arg)
				}() + ")")
			}
			fmt.Fprintf(&b, " as %q, ", it.Alias)
		}
		b.WriteString("] from=[")
		for _, t := range n.From {
			fmt.Fprintf(&b, "%s %q alias %q on %s, ", t.Join, t.Name, t.Alias, CanonCond(t.On))
		}
		fmt.Fprintf(&b, "] where=%s group=[", CanonCond(n.Where))
		for i := range n.GroupBy {
			b.WriteString(canonOperand(&n.GroupBy[i]) + ", ")
		}
		b.WriteString("] order=[")
		for i := range n.OrderBy {
			fmt.Fprintf(&b, "%s desc=%v, ", canonOperand(&n.OrderBy[i].Col), n.OrderBy[i].Desc)
		}
		fmt.Fprintf(&b, "] limit=%v/%d offset=%v/%d", n.HasLimit, n.Limit, n.HasOffset, n.Offset)
	case "insert":
		fmt.Fprintf(&b, " cols=%q rows=[", n.Cols)
		for _, r := range n.Rows {
			b.WriteString("(")
			for _, v := range r {
				b.WriteString(v.Enc() + ",")
			}
			b.WriteString(")")
		}
		b.WriteString("]")
	case "update":
		b.WriteString(" sets=[")
		for i := range n.Sets {
			fmt.Fprintf(&b, "%q=%s, ", n.Sets[i].Col, canonOperand(&n.Sets[i].Src))
		}
		fmt.Fprintf(&b, "] where=%s", CanonCond(n.Where))
	case "delete":
		fmt.Fprintf(&b, " where=%s", CanonCond(n.Where))
	case "create_table":
		b.WriteString(" defs=[")
		for _, d := range n.Defs {
			fmt.Fprintf(&b, "%q %s %d, ", d.Name, d.Type, d.Len)
		}
		b.WriteString("]")
	}
	return b.String()
}

// ---------- reference SELECT evaluator (C05-C07) ----------

type field struct {
	qual, name string
}

// Cell is one result value; Alt, when set, is a second acceptable value
// (AVG exactly at .5).
type Cell struct {
	V   Val
	Alt *Val
	// Rerounded is what the known defect produces for an AVG cell: the
	// running average re-rounded (through float64) after every row, in scan
	// order. It is never accepted; it only classifies a mismatch.
	Rerounded *Val
}

type Result struct {
	Cols     []string // output names (alias, or column name for plain columns; "" = not judged)
	Rows     [][]Cell // in natural order (no ORDER BY applied)
	Ordered  bool     // natural order is significant (single table, no aggregate)
	Multiset bool     // compare as multiset (joins, aggregates)
	SortIdx  []int    // output column index per ORDER BY key
	SortDesc []bool
}

type EvalError struct{ Kind, Msg string }

func (e *EvalError) Error() string { return e.Kind + ": " + e.Msg }

func resolve(fields []field, o *proto.Operand) (int, error) {
	found := -1
	for i, f := range fields {
		if f.name != o.Col {
			continue
		}
		if o.Qual != "" && f.qual != o.Qual {
			continue
		}
		if found >= 0 {
			return -1, &EvalError{"ambiguous", o.Col}
		}
		found = i
	}
	if found < 0 {
		return -1, &EvalError{"not-found", o.Qual + "." + o.Col}
	}
	return found, nil
}

func lookupIn(fields []field, row []Val) func(*proto.Operand) (Val, error) {
	return func(o *proto.Operand) (Val, error) {
		i, err := resolve(fields, o)
		if err != nil {
			return Val{}, err
		}
		return row[i], nil
	}
}

// evalExpr evaluates a select-list expression to a value.
func evalExpr(c *proto.Cond, lk func(*proto.Operand) (Val, error)) (Val, error) {
	if c.Op == "val" {
		return operandVal(c.LHS, lk)
	}
	t, err := EvalCond(c, lk)
	if err != nil {
		return Val{}, err
	}
	switch t {
	case True:
		return proto.Bool(true), nil
	case False:
		return proto.Bool(false), nil
	}
	return proto.Null(), nil
}

func (d *DB) EvalSelect(n *proto.NStmt) (*Result, error) {
	var fields []field
	var rows [][]Val
	for ti, tr := range n.From {
		t := d.Table(tr.Name)
		if t == nil {
			return nil, &EvalError{"no-table", tr.Name}
		}
		q := tr.Name
		if tr.Alias != "" {
			q = tr.Alias
		}
		var tf []field
		for _, c := range t.Cols {
			tf = append(tf, field{q, c.Name})
		}
		var trows [][]Val
		for _, r := range t.Rows {
			trows = append(trows, r.Vals)
		}
		if ti == 0 {
			fields, rows = tf, trows
			continue
		}
		nf := append(append([]field(nil), fields...), tf...)
		var out [][]Val
		merge := func(l, r []Val) []Val { return append(append([]Val(nil), l...), r...) }
		match := func(row []Val) (bool, error) {
			v, err := EvalCond(tr.On, lookupIn(nf, row))
			return v == True, err
		}
		nullsL := make([]Val, len(fields))
		for i := range nullsL {
			nullsL[i] = proto.Null()
		}
		nullsR := make([]Val, len(tf))
		for i := range nullsR {
			nullsR[i] = proto.Null()
		}
		switch tr.Join {
		case "inner", "left":
			for _, l := range rows {
				hit := false
				for _, r := range trows {
					m := merge(l, r)
					ok, err := match(m)
					if err != nil {
						return nil, err
					}
					if ok {
						hit = true
						out = append(out, m)
					}
				}
				if !hit && tr.Join == "left" {
					out = append(out, merge(l, nullsR))
				}
			}
		case "right":
			for _, r := range trows {
				hit := false
				for _, l := range rows {
					m := merge(l, r)
					ok, err := match(m)
					if err != nil {
						return nil, err
					}
					if ok {
						hit = true
						out = append(out, m)
					}
				}
				if !hit {
					out = append(out, merge(nullsL, r))
				}
			}
		default:
			return nil, &EvalError{"bad-join", tr.Join}
		}
		fields, rows = nf, out
	}
	if len(n.From) == 0 {
		rows = [][]Val{{}}
	}
	if n.Where != nil {
		var keep [][]Val
		for _, r := range rows {
			v, err := EvalCond(n.Where, lookupIn(fields, r))
			if err != nil {
				return nil, err
			}
			if v == True {
				keep = append(keep, r)
			}
		}
		rows = keep
	}
	res := &Result{Ordered: len(n.From) <= 1, Multiset: len(n.From) > 1}
	hasAgg := false
	for _, it := range n.Items {
		if it.Kind == "count" || it.Kind == "avg" {
			hasAgg = true
		}
	}
	// output field descriptors for ORDER BY resolution
	var outFields []field
	if n.Star {
		outFields = fields
		for _, f := range fields {
			res.Cols = append(res.Cols, f.name)
		}
		for _, r := range rows {
			cells := make([]Cell, len(r))
			for i, v := range r {
				cells[i] = Cell{V: v}
			}
			res.Rows = append(res.Rows, cells)
		}
	} else {
		for _, it := range n.Items {
			name := ""
			f := field{"", "\x00unnamed"}
			if it.Kind == "expr" && it.Expr.Op == "val" && it.Expr.LHS.Lit == nil {
				i, err := resolve(fields, it.Expr.LHS)
				if err != nil {
					return nil, err
				}
				f = fields[i]
				name = f.name
			}
			if it.Alias != "" {
				name = it.Alias
				f.name = it.Alias
			}
			res.Cols = append(res.Cols, name)
			outFields = append(outFields, f)
		}
		if !hasAgg && len(n.GroupBy) == 0 {
			for _, r := range rows {
				var cells []Cell
				for _, it := range n.Items {
					v, err := evalExpr(it.Expr, lookupIn(fields, r))
					if err != nil {
						return nil, err
					}
					cells = append(cells, Cell{V: v})
				}
				res.Rows = append(res.Rows, cells)
			}
		} else {
			res.Ordered, res.Multiset = false, true
			// grouping columns are resolved against the select list: by name,
			// qualifier or alias
			gidx := make([]int, len(n.GroupBy))
			for gi := range n.GroupBy {
				g := &n.GroupBy[gi]
				found := -1
				for ii, it := range n.Items {
					if it.Kind != "expr" || it.Expr.Op != "val" || it.Expr.LHS.Lit != nil {
						continue
					}
					o := it.Expr.LHS
					m := false
					switch {
					case g.Qual != "":
						m = o.Qual == g.Qual && o.Col == g.Col
					default:
						m = it.Alias == g.Col || o.Col == g.Col
					}
					if m {
						if found >= 0 {
							return nil, &EvalError{"ambiguous-group", g.Col}
						}
						found = ii
					}
				}
				if found < 0 {
					return nil, &EvalError{"group-col-not-in-select-list", g.Col}
				}
				gidx[gi] = found
			}
			type group struct {
				first []Val
				rows  [][]Val
			}
			var order []string
			groups := map[string]*group{}
			for _, r := range rows {
				var kp []string
				for _, ii := range gidx {
					v, err := evalExpr(n.Items[ii].Expr, lookupIn(fields, r))
					if err != nil {
						return nil, err
					}
					kp = append(kp, v.Enc())
				}
				k := strings.Join(kp, "\x1f")
				g := groups[k]
				if g == nil {
					g = &group{first: r}
					groups[k] = g
					order = append(order, k)
				}
				g.rows = append(g.rows, r)
			}
			if len(n.GroupBy) == 0 && len(rows) == 0 {
				groups[""] = &group{}
				order = []string{""}
			}
			for _, k := range order {
				g := groups[k]
				var cells []Cell
				for _, it := range n.Items {
					switch it.Kind {
					case "count":
						cnt := int64(0)
						for _, r := range g.rows {
							if it.Arg == nil {
								cnt++
								continue
							}
							v, err := lookupIn(fields, r)(it.Arg)
							if err != nil {
								return nil, err
							}
							if !v.IsNull() {
								cnt++
							}
						}
						cells = append(cells, Cell{V: proto.Int(cnt)})
					case "avg":
						sum := new(big.Int)
						cnt := int64(0)
						for _, r := range g.rows {
							v, err := lookupIn(fields, r)(it.Arg)
							if err != nil {
								return nil, err
							}
							if v.IsNull() {
								return nil, &EvalError{"avg-over-null", ""}
							}
							if v.K != 'i' {
								return nil, &EvalError{"avg-over-non-integer", ""}
							}
							sum.Add(sum, big.NewInt(v.I))
							cnt++
						}
						if cnt == 0 {
							cells = append(cells, Cell{V: proto.Int(0)})
							break
						}
						// what re-rounding a running average gives (known defect)
						var run int64
						for i, r := range g.rows {
							v, _ := lookupIn(fields, r)(it.Arg)
							if i == 0 {
								run = v.I
								continue
							}
							a := run * int64(i)
							a += v.I
							run = int64(math.Round(float64(a) / float64(i+1)))
						}
						rr := proto.Int(run)
						// round(sum/cnt) to nearest; exactly .5: both neighbours accepted
						q, m := new(big.Int).DivMod(sum, big.NewInt(cnt), new(big.Int)) // floor division, 0 <= m < cnt
						twice := new(big.Int).Mul(m, big.NewInt(2))
						switch twice.Cmp(big.NewInt(cnt)) {
						case -1:
							cells = append(cells, Cell{V: proto.Int(q.Int64()), Rerounded: &rr})
						case 1:
							cells = append(cells, Cell{V: proto.Int(q.Int64() + 1), Rerounded: &rr})
						default:
							alt := proto.Int(q.Int64() + 1)
							cells = append(cells, Cell{V: proto.Int(q.Int64()), Alt: &alt, Rerounded: &rr})
						}
					default:
						if g.first == nil {
							// empty input without GROUP BY: only literals make sense
							v, err := evalExpr(it.Expr, func(*proto.Operand) (Val, error) { return Val{}, &EvalError{"column-in-empty-aggregate", ""} })
							if err != nil {
								return nil, err
							}
							cells = append(cells, Cell{V: v})
							break
						}
						v, err := evalExpr(it.Expr, lookupIn(fields, g.first))
						if err != nil {
							return nil, err
						}
						cells = append(cells, Cell{V: v})
					}
				}
				res.Rows = append(res.Rows, cells)
			}
		}
	}
	for _, ob := range n.OrderBy {
		i, err := resolve(outFields, &ob.Col)
		if err != nil {
			return nil, err
		}
		res.SortIdx = append(res.SortIdx, i)
		res.SortDesc = append(res.SortDesc, ob.Desc)
	}
	return res, nil
}

func cmpVal(a, b Val) int {
	switch a.K {
	case 'i':
		switch {
		case a.I < b.I:
			return -1
		case a.I > b.I:
			return 1
		}
		return 0
	case 's':
		return strings.Compare(a.S, b.S)
	case 'b':
		switch {
		case !a.B && b.B:
			return -1
		case a.B && !b.B:
			return 1
		}
		return 0
	}
	return 0
}

func cellMatches(c Cell, v Val) bool {
	return c.V.Equal(v) || (c.Alt != nil && c.Alt.Equal(v))
}

func rowMatches(e []Cell, a []Val) bool {
	if len(e) != len(a) {
		return false
	}
	for i := range e {
		if !cellMatches(e[i], a[i]) {
			return false
		}
	}
	return true
}

func cellsStr(e []Cell) string {
	var v []Val
	for _, c := range e {
		v = append(v, c.V)
	}
	return rowStr(v)
}

// multisetMatch matches expected rows (with alternatives) against actual rows.
func multisetMatch(exp [][]Cell, act [][]Val) (string, bool) {
	used := make([]bool, len(act))
	for _, e := range exp {
		hit := false
		for j, a := range act {
			if !used[j] && rowMatches(e, a) {
				used[j], hit = true, true
				break
			}
		}
		if !hit {
			return "expected row " + cellsStr(e) + " missing", false
		}
	}
	for j, a := range act {
		if !used[j] {
			return "unexpected row " + rowStr(a), false
		}
	}
	return "", true
}

// CompareSelect judges an actual result against the reference result under
// the freedoms the properties leave (ties of an ORDER BY, .5 averages,
// multiset comparison for joins and aggregates).
func CompareSelect(res *Result, n *proto.NStmt, cols []string, act [][]Val) *Diff {
	if len(cols) != len(res.Cols) {
		return &Diff{"result:column-count", fmt.Sprintf("result has %d columns %v, expected %d %v", len(cols), cols, len(res.Cols), res.Cols)}
	}
	for i, w := range res.Cols {
		if w != "" && cols[i] != w {
			return &Diff{"result:column-name", fmt.Sprintf("column %d is named %q, expected %q", i, cols[i], w)}
		}
	}
	exp := res.Rows
	if len(res.SortIdx) > 0 {
		// stable sort of the expected rows; ties keep natural order
		exp = append([][]Cell(nil), exp...)
		sort.SliceStable(exp, func(i, j int) bool {
			for k, ci := range res.SortIdx {
				c := cmpVal(exp[i][ci].V, exp[j][ci].V)
				if c == 0 {
					continue
				}
				if res.SortDesc[k] {
					return c > 0
				}
				return c < 0
			}
			return false
		})
	}
	lo, hi := 0, len(exp)
	if n.HasOffset {
		lo = n.Offset
		if lo > len(exp) {
			lo = len(exp)
		}
	}
	if n.HasLimit && n.Limit < hi-lo { // no lo+limit: the sum may not fit
		hi = lo + n.Limit
	}
	window := exp[lo:hi]
	if len(act) != len(window) {
		return &Diff{"result:row-count", fmt.Sprintf("%d rows returned, expected %d", len(act), len(window))}
	}
	if len(res.SortIdx) == 0 {
		if res.Ordered && !res.Multiset {
			for i := range window {
				if !rowMatches(window[i], act[i]) {
					return &Diff{"result:row-differs", fmt.Sprintf("row %d is %s, expected %s", i, rowStr(act[i]), cellsStr(window[i]))}
				}
			}
			return nil
		}
		if n.HasLimit || n.HasOffset {
			// without ORDER BY the window of an unordered result is only
			// judged as a sub-multiset of the full result
			d := subMultiset(exp, act)
			if d != nil && subMultiset(reroundedView(exp), act) == nil {
				return &Diff{"avg-is-rerounded-running-average", d.What + " (the AVG values returned are the running average re-rounded after every row, not sum/count)"}
			}
			return d
		}
		if msg, ok := multisetMatch(window, act); !ok {
			if _, ok2 := multisetMatch(reroundedView(window), act); ok2 {
				return &Diff{"avg-is-rerounded-running-average", msg + " (the AVG values returned are the running average re-rounded after every row, not sum/count)"}
			}
			return &Diff{"result:rows-differ", msg}
		}
		return nil
	}
	// ORDER BY: key sequence must match position by position
	for i := range window {
		for _, ci := range res.SortIdx {
			if !cellMatches(window[i][ci], act[i][ci]) {
				return &Diff{"result:order", fmt.Sprintf("row %d has sort key %s, expected %s (column %d)", i, act[i][ci].String(), window[i][ci].V.String(), ci)}
			}
		}
	}
	// rows must come from the expected multiset (any outcome of an unstable
	// sort among equal keys is accepted, nothing else)
	if lo == 0 && hi == len(exp) {
		if msg, ok := multisetMatch(window, act); !ok {
			return &Diff{"result:rows-differ", msg}
		}
		return nil
	}
	return subMultiset(exp, act)
}

func subMultiset(exp [][]Cell, act [][]Val) *Diff {
	used := make([]bool, len(exp))
	for _, a := range act {
		hit := false
		for j, e := range exp {
			if !used[j] && rowMatches(e, a) {
				used[j], hit = true, true
				break
			}
		}
		if !hit {
			return &Diff{"result:rows-differ", "row " + rowStr(a) + " is not (or not that often) in the expected result"}
		}
	}
	return nil
}

// reroundedView replaces every AVG cell by the value the known defect
// produces.
func reroundedView(rows [][]Cell) [][]Cell {
	out := make([][]Cell, len(rows))
	for i, r := range rows {
		nr := make([]Cell, len(r))
		for j, c := range r {
			if c.Rerounded != nil {
				nr[j] = Cell{V: *c.Rerounded}
			} else {
				nr[j] = c
			}
		}
		out[i] = nr
	}
	return out
}

// ReroundedRows returns the rows the known AVG defect would produce, for
// classifying order dependence.
func ReroundedRows(res *Result) [][]Val {
	var out [][]Val
	for _, r := range reroundedView(res.Rows) {
		var vr []Val
		for _, c := range r {
			vr = append(vr, c.V)
		}
		out = append(out, vr)
	}
	return out
}
