package model

import (
	"strconv"
	"strings"
	"unicode"

	"verif/harness/internal/core"
	"verif/harness/proto"
)

// Style chooses one of the many texts of a statement.
type Style struct {
	KwCase          int  // 0 upper, 1 lower, 2 mixed per letter
	WS              int  // 0 single spaces, 1 tabs/newlines/multiple, 2 minimal
	QuoteIDs        bool // identifiers as "name"
	OptKw           bool // write optional keywords (AS, INNER, ASC)
	LimitOffsetSwap bool
	ZeroPad         bool // some non-negative integer literals get leading zeros (010 is ten)
	R               *core.Rand
}

type tok struct {
	s    string
	word bool // needs separation from a neighbouring word
}

type rend struct {
	st   Style
	toks []tok
}

func (r *rend) kw(s string) {
	switch r.st.KwCase {
	case 1:
		s = strings.ToLower(s)
	case 2:
		b := []byte(strings.ToLower(s))
		for i := range b {
			if r.st.R != nil && r.st.R.Bool() && b[i] >= 'a' && b[i] <= 'z' {
				b[i] -= 32
			}
		}
		s = string(b)
	}
	r.toks = append(r.toks, tok{s, true})
}

func plainIdent(s string) bool {
	if s == "" {
		return false
	}
	for i, ch := range s {
		// what mkdb's scanner takes as an identifier character: letters and
		// (after the first character) decimal digits of any script
		if ch == '_' || unicode.IsLetter(ch) || (i > 0 && unicode.IsDigit(ch)) {
			continue
		}
		return false
	}
	return !reserved[strings.ToUpper(s)]
}

var reserved = map[string]bool{}

func init() {
	for _, k := range strings.Fields("TRUE FALSE AND OR AS ASC AVG BEGIN BY CASE COMMIT COUNT CREATE DATABASE DELETE DESC DISTINCT ELSE END EXISTS FROM FULL GROUP HAVING IN INNER INSERT INTO JOIN LEFT LIKE LIMIT MAX MIN NOT NULL OFFSET ON ORDER OUTER RIGHT SELECT SET SHOW SUM BOOLEAN INT BIGINT VARCHAR TABLE THEN UNION UNIQUE UPDATE USE VALUES WHEN WHERE WITH") {
		reserved[k] = true
	}
}

func (r *rend) id(s string) {
	if r.st.QuoteIDs || !plainIdent(s) {
		r.toks = append(r.toks, tok{`"` + s + `"`, false})
		return
	}
	r.toks = append(r.toks, tok{s, true})
}

func (r *rend) p(s string) { r.toks = append(r.toks, tok{s, false}) }

// TextOK reports whether SQL text can express the value.
func TextOK(v Val) bool {
	switch v.K {
	case 'i':
		return v.I >= 0
	case 's':
		return strTextOK(v.S)
	case 'b':
		return true
	}
	return false
}

// strTextOK: can the string stand between single quotes as it is? mkdb keeps
// the text between the quotes verbatim (escape sequences are recognised by
// its scanner but not translated), so a value may contain the two-character
// sequences \\' \\" and \\\\ - backslash included - but no bare single quote, no
// other backslash and no line break.
func strTextOK(s string) bool {
	for i := 0; i < len(s); i++ {
		switch s[i] {
		case '\n':
			return false
		case '\'':
			return false
		case '\\':
			if i+1 >= len(s) || !strings.ContainsRune("\\'\"", rune(s[i+1])) {
				return false
			}
			i++
		}
	}
	return true
}

// num writes a non-negative integer, with leading zeros under ZeroPad.
func (r *rend) num(n int64) {
	t := strconv.FormatInt(n, 10)
	if r.st.ZeroPad && n >= 0 && (r.st.R == nil || r.st.R.Bool()) {
		k := 1
		if r.st.R != nil {
			k = r.st.R.Range(1, 3)
		}
		t = strings.Repeat("0", k) + t
	}
	r.toks = append(r.toks, tok{t, true})
}

func (r *rend) lit(v Val) {
	switch v.K {
	case 'i':
		r.num(v.I)
	case 's':
		r.toks = append(r.toks, tok{"'" + v.S + "'", false})
	case 'b':
		if v.B {
			r.kw("TRUE")
		} else {
			r.kw("FALSE")
		}
	default:
		r.kw("NULL") // not expressible; callers check TextOK first
	}
}

func (r *rend) operand(o *proto.Operand) {
	if o.Lit != nil {
		r.lit(*o.Lit)
		return
	}
	if o.Qual != "" {
		r.id(o.Qual)
		r.p(".")
	}
	r.id(o.Col)
}

func (r *rend) cond(c *proto.Cond) {
	switch c.Op {
	case "or":
		r.cond(c.L)
		r.kw("OR")
		r.cond(c.R)
	case "and":
		r.cond(c.L)
		r.kw("AND")
		r.cond(c.R)
	case "val":
		r.operand(c.LHS)
	default:
		r.operand(c.LHS)
		r.p(c.Op)
		r.operand(c.RHS)
	}
}

func (r *rend) String() string {
	var b strings.Builder
	for i, t := range r.toks {
		if i > 0 {
			prev := r.toks[i-1]
			need := prev.word && t.word
			// keep operators apart that would fuse: "<" "=" never adjacent here
			switch r.st.WS {
			case 0:
				if need || !(t.s == "," || t.s == ")" || t.s == "." || prev.s == "(" || prev.s == ".") {
					b.WriteByte(' ')
				}
			case 1:
				if need || (t.s != "." && prev.s != "." && (r.st.R == nil || r.st.R.Chance(2, 3))) {
					switch {
					case r.st.R == nil:
						b.WriteString(" \t\n")
					default:
						switch r.st.R.Intn(6) {
						case 0:
							b.WriteString("  ")
						case 1:
							b.WriteString("\t")
						case 2:
							b.WriteString("\n")
						case 3:
							b.WriteString("\r\n") // a file with CRLF line ends
						case 4:
							b.WriteString("\r")
						default:
							b.WriteString(" \n\t ")
						}
					}
				}
			case 2:
				if need {
					b.WriteByte(' ')
				}
			}
		}
		b.WriteString(t.s)
	}
	return b.String()
}

func typeKw(t string) string {
	switch t {
	case "int":
		return "INT"
	case "bigint":
		return "BIGINT"
	case "boolean":
		return "BOOLEAN"
	}
	return "VARCHAR"
}

// StmtTextOK reports whether every value of the statement can be written as
// SQL text.
func StmtTextOK(s *proto.Stmt) bool {
	for _, row := range s.Rows {
		for _, v := range row {
			if !TextOK(v) {
				return false
			}
		}
	}
	for _, set := range s.Sets {
		if !TextOK(set.Val) {
			return false
		}
	}
	return condTextOK(s.Where) && len(s.RawKinds) == 0
}

func condTextOK(c *proto.Cond) bool {
	if c == nil {
		return true
	}
	if c.Op == "or" || c.Op == "and" {
		return condTextOK(c.L) && condTextOK(c.R)
	}
	if c.LHS != nil && c.LHS.Lit != nil && !TextOK(*c.LHS.Lit) {
		return false
	}
	if c.RHS != nil && c.RHS.Lit != nil && !TextOK(*c.RHS.Lit) {
		return false
	}
	return true
}

// RenderStmt writes a DDL/DML statement given as direct values as SQL text.
func RenderStmt(s *proto.Stmt, st Style) string {
	r := &rend{st: st}
	renderStmtInto(r, s)
	return r.String()
}

func renderStmtInto(r *rend, s *proto.Stmt) {
	switch s.Kind {
	case "create":
		r.kw("CREATE")
		r.kw("TABLE")
		r.id(s.Table)
		r.p("(")
		for i, d := range s.Defs {
			if i > 0 {
				r.p(",")
			}
			r.id(d.Name)
			r.kw(typeKw(d.Type))
			if d.Type == "varchar" {
				r.p("(")
				r.num(d.Len)
				r.p(")")
			}
		}
		r.p(")")
	case "insert":
		r.kw("INSERT")
		r.kw("INTO")
		r.id(s.Table)
		if len(s.Cols) > 0 {
			r.p("(")
			for i, c := range s.Cols {
				if i > 0 {
					r.p(",")
				}
				r.id(c)
			}
			r.p(")")
		}
		r.kw("VALUES")
		for i, row := range s.Rows {
			if i > 0 {
				r.p(",")
			}
			r.p("(")
			for j, v := range row {
				if j > 0 {
					r.p(",")
				}
				r.lit(v)
			}
			r.p(")")
		}
	case "update":
		r.kw("UPDATE")
		r.id(s.Table)
		r.kw("SET")
		for i, set := range s.Sets {
			if i > 0 {
				r.p(",")
			}
			r.id(set.Col)
			r.p("=")
			r.lit(set.Val)
		}
		if s.Where != nil {
			r.kw("WHERE")
			r.cond(s.Where)
		}
	case "delete":
		r.kw("DELETE")
		r.kw("FROM")
		r.id(s.Table)
		if s.Where != nil {
			r.kw("WHERE")
			r.cond(s.Where)
		}
	}
}

// RenderN writes a neutral-form statement as SQL text.
func RenderN(n *proto.NStmt, st Style) string {
	r := &rend{st: st}
	renderInto(r, n)
	return r.String()
}

func renderInto(r *rend, n *proto.NStmt) {
	st := r.st
	switch n.Kind {
	case "select":
		r.kw("SELECT")
		if n.Star {
			r.p("*")
		}
		for i, it := range n.Items {
			if i > 0 {
				r.p(",")
			}
			switch it.Kind {
			case "count":
				r.kw("COUNT")
				r.p("(")
				if it.Arg == nil {
					r.p("*")
				} else {
					r.operand(it.Arg)
				}
				r.p(")")
			case "avg":
				r.kw("AVG")
				r.p("(")
				r.operand(it.Arg)
				r.p(")")
			default:
				r.cond(it.Expr)
			}
			if it.Alias != "" {
				if st.OptKw {
					r.kw("AS")
				}
				r.id(it.Alias)
			}
		}
		for i, t := range n.From {
			if i == 0 {
				r.kw("FROM")
			} else {
				switch t.Join {
				case "left":
					r.kw("LEFT")
				case "right":
					r.kw("RIGHT")
				default:
					if st.OptKw {
						r.kw("INNER")
					}
				}
				r.kw("JOIN")
			}
			r.id(t.Name)
			if t.Alias != "" {
				r.id(t.Alias)
			}
			if i > 0 {
				r.kw("ON")
				r.cond(t.On)
			}
		}
		if n.Where != nil {
			r.kw("WHERE")
			r.cond(n.Where)
		}
		if len(n.GroupBy) > 0 {
			r.kw("GROUP")
			r.kw("BY")
			for i := range n.GroupBy {
				if i > 0 {
					r.p(",")
				}
				r.operand(&n.GroupBy[i])
			}
		}
		if len(n.OrderBy) > 0 {
			r.kw("ORDER")
			r.kw("BY")
			for i := range n.OrderBy {
				if i > 0 {
					r.p(",")
				}
				r.operand(&n.OrderBy[i].Col)
				if n.OrderBy[i].Desc {
					r.kw("DESC")
				} else if st.OptKw {
					r.kw("ASC")
				}
			}
		}
		lim := func() {
			if n.HasLimit {
				r.kw("LIMIT")
				r.num(int64(n.Limit))
			}
		}
		off := func() {
			if n.HasOffset {
				r.kw("OFFSET")
				r.num(int64(n.Offset))
			}
		}
		if st.LimitOffsetSwap {
			off()
			lim()
		} else {
			lim()
			off()
		}
	case "insert":
		renderStmtInto(r, &proto.Stmt{Kind: "insert", Table: n.Name, Cols: n.Cols, Rows: n.Rows})
	case "update":
		r.kw("UPDATE")
		r.id(n.Name)
		r.kw("SET")
		for i := range n.Sets {
			if i > 0 {
				r.p(",")
			}
			r.id(n.Sets[i].Col)
			r.p("=")
			r.operand(&n.Sets[i].Src)
		}
		if n.Where != nil {
			r.kw("WHERE")
			r.cond(n.Where)
		}
	case "delete":
		r.kw("DELETE")
		r.kw("FROM")
		r.id(n.Name)
		if n.Where != nil {
			r.kw("WHERE")
			r.cond(n.Where)
		}
	case "create_table":
		renderStmtInto(r, &proto.Stmt{Kind: "create", Table: n.Name, Defs: n.Defs})
	case "create_db":
		r.kw("CREATE")
		r.kw("DATABASE")
		r.id(n.Name)
	case "use":
		r.kw("USE")
		r.id(n.Name)
	case "show":
		r.kw("SHOW")
		if n.Name == "s" {
			r.toks = append(r.toks, tok{"databases", true})
		} else {
			r.kw("DATABASE")
		}
	}
}

var Plain = Style{}

// RenderNTokens returns the tokens of a statement's plain rendering (a
// literal or quoted identifier is one token).
func RenderNTokens(n *proto.NStmt) []string {
	// render through the same code path, capturing tokens
	r := &rend{st: Style{OptKw: true}}
	renderInto(r, n)
	var out []string
	for _, t := range r.toks {
		out = append(out, t.s)
	}
	return out
}
