// Package model is the deliberately plain in-memory reference database that
// the oracles compare mkdb against, plus SQL rendering and a reference SELECT
// evaluator. It knows nothing about pages, logs or caches.
package model

import (
	"fmt"
	"math"
	"strings"

	"verif/harness/proto"
)

type Val = proto.Val

type Col struct {
	Name string
	Type string // int bigint varchar boolean
	Len  int64
}

type Row struct {
	ID   uint32 // id observed in mkdb (0 = not yet observed)
	Vals []Val
	Seq  int
}

type Table struct {
	Name string
	Cols []Col
	Rows []*Row
}

type DB struct {
	Tables []*Table
	MaxID  uint32 // greatest row id ever observed in this database
	seq    int
}

func NewDB() *DB { return &DB{} }

func (d *DB) Clone() *DB {
	n := &DB{MaxID: d.MaxID, seq: d.seq}
	for _, t := range d.Tables {
		nt := &Table{Name: t.Name, Cols: append([]Col(nil), t.Cols...)}
		for _, r := range t.Rows {
			nt.Rows = append(nt.Rows, &Row{ID: r.ID, Seq: r.Seq, Vals: append([]Val(nil), r.Vals...)})
		}
		n.Tables = append(n.Tables, nt)
	}
	return n
}

func (d *DB) Table(name string) *Table {
	for _, t := range d.Tables {
		if t.Name == name {
			return t
		}
	}
	return nil
}

func (t *Table) ColIdx(name string) int {
	for i, c := range t.Cols {
		if c.Name == name {
			return i
		}
	}
	return -1
}

// EncodedSize is the size of a row's stored form as the documented format
// defines it: one null-flag byte per column, then 4 (int), 8 (bigint),
// 1 (boolean) or 4+len (varchar) bytes for a non-NULL value.
func EncodedSize(cols []Col, vals []Val) int {
	n := 0
	for i, c := range cols {
		n++
		if vals[i].IsNull() {
			continue
		}
		switch c.Type {
		case "int":
			n += 4
		case "bigint":
			n += 8
		case "boolean":
			n++
		case "varchar":
			n += 4 + len(vals[i].S)
		}
	}
	return n
}

const MaxRowSize = 400

// Failure causes the properties name.
const (
	FailNoTable  = "unknown-table"
	FailColCount = "column-count"
	FailType     = "type-mismatch"
	FailRange    = "int-out-of-range"
	FailSize     = "row-too-large"
	FailDupTable = "duplicate-table"
)

func checkVal(c Col, v Val) string {
	if v.IsNull() {
		return ""
	}
	switch c.Type {
	case "int":
		if v.K != 'i' {
			return FailType
		}
		if v.I > math.MaxInt32 || v.I < math.MinInt32 {
			return FailRange
		}
	case "bigint":
		if v.K != 'i' {
			return FailType
		}
	case "varchar":
		if v.K != 's' {
			return FailType
		}
	case "boolean":
		if v.K != 'b' {
			return FailType
		}
	}
	return ""
}

func checkRow(cols []Col, vals []Val) string {
	for i, c := range cols {
		if f := checkVal(c, vals[i]); f != "" {
			return f
		}
	}
	if EncodedSize(cols, vals) > MaxRowSize {
		return FailSize
	}
	return ""
}

// RowOp is one row operation of a statement, in application order.
type RowOp struct {
	Kind string // ins upd del
	Idx  int    // row index in the table (upd, del)
	Vals []Val  // ins, upd: the full new row
}

// Plan computes what statement s does to d without changing d: the failure
// cause ("" = success), the index of the first failing row operation
// (-1 if none), and the row operations in application order (for a failing
// statement: the operations before the failing one).
func (d *DB) Plan(s *proto.Stmt) (fail string, failAt int, ops []RowOp, err error) {
	failAt = -1
	switch s.Kind {
	case "create":
		if d.Table(s.Table) != nil || s.Table == "sys_pages" || s.Table == "sys_schema" {
			return FailDupTable, 0, nil, nil
		}
		return "", -1, nil, nil
	}
	t := d.Table(s.Table)
	if t == nil {
		return FailNoTable, 0, nil, nil
	}
	switch s.Kind {
	case "insert":
		cols := s.Cols
		if len(cols) == 0 {
			for _, c := range t.Cols {
				cols = append(cols, c.Name)
			}
		}
		for ri, row := range s.Rows {
			if len(row) != len(cols) {
				return FailColCount, ri, ops, nil
			}
			full := make([]Val, len(t.Cols))
			for i := range full {
				full[i] = proto.Null()
			}
			for i, cn := range cols {
				ci := t.ColIdx(cn)
				if ci < 0 {
					return "", -1, nil, fmt.Errorf("model: insert names unknown column %q", cn)
				}
				full[ci] = row[i]
			}
			if f := checkRow(t.Cols, full); f != "" {
				return f, ri, ops, nil
			}
			ops = append(ops, RowOp{Kind: "ins", Vals: full})
		}
		return "", -1, ops, nil
	case "update", "delete":
		n := 0
		for idx, r := range t.Rows {
			ok := true
			if s.Where != nil {
				v, e := EvalCond(s.Where, func(o *proto.Operand) (Val, error) {
					ci := t.ColIdx(o.Col)
					if ci < 0 {
						return Val{}, fmt.Errorf("model: unknown column %q", o.Col)
					}
					return r.Vals[ci], nil
				})
				if e != nil {
					return "", -1, nil, e
				}
				ok = v == True
			}
			if !ok {
				continue
			}
			if s.Kind == "delete" {
				ops = append(ops, RowOp{Kind: "del", Idx: idx})
				continue
			}
			full := append([]Val(nil), r.Vals...)
			for _, set := range s.Sets {
				ci := t.ColIdx(set.Col)
				if ci < 0 {
					return "", -1, nil, fmt.Errorf("model: update names unknown column %q", set.Col)
				}
				full[ci] = set.Val
			}
			if f := checkRow(t.Cols, full); f != "" {
				return f, n, ops, nil
			}
			ops = append(ops, RowOp{Kind: "upd", Idx: idx, Vals: full})
			n++
		}
		return "", -1, ops, nil
	}
	return "", -1, nil, fmt.Errorf("model: bad statement kind %q", s.Kind)
}

// ApplyOps applies the first n row operations of a plan (n < 0: all).
func (d *DB) ApplyOps(s *proto.Stmt, ops []RowOp, n int) {
	if s.Kind == "create" {
		t := &Table{Name: s.Table}
		for _, c := range s.Defs {
			t.Cols = append(t.Cols, Col{Name: c.Name, Type: c.Type, Len: c.Len})
		}
		d.Tables = append(d.Tables, t)
		return
	}
	t := d.Table(s.Table)
	if n < 0 || n > len(ops) {
		n = len(ops)
	}
	del := map[int]bool{}
	for _, op := range ops[:n] {
		switch op.Kind {
		case "ins":
			d.seq++
			t.Rows = append(t.Rows, &Row{Vals: op.Vals, Seq: d.seq})
		case "upd":
			t.Rows[op.Idx].Vals = op.Vals
		case "del":
			del[op.Idx] = true
		}
	}
	if len(del) > 0 {
		var keep []*Row
		for i, r := range t.Rows {
			if !del[i] {
				keep = append(keep, r)
			}
		}
		t.Rows = keep
	}
}

// Apply plans and, when the statement succeeds, applies it. It returns the
// predicted failure cause ("" = success).
func (d *DB) Apply(s *proto.Stmt) (fail string, failAt int, ops []RowOp, err error) {
	fail, failAt, ops, err = d.Plan(s)
	if err != nil || fail != "" {
		return
	}
	d.ApplyOps(s, ops, -1)
	return
}

// ---------- three-valued condition evaluation ----------

type Tri int

const (
	False Tri = iota
	True
	Unknown
)

func cmpVals(op string, a, b Val) (Tri, error) {
	if a.IsNull() || b.IsNull() {
		return Unknown, nil
	}
	if a.K != b.K {
		return False, fmt.Errorf("model: comparing %c with %c", a.K, b.K)
	}
	var c int
	switch a.K {
	case 'i':
		switch {
		case a.I < b.I:
			c = -1
		case a.I > b.I:
			c = 1
		}
	case 's':
		c = strings.Compare(a.S, b.S)
	case 'b':
		if op != "=" && op != "!=" {
			return False, fmt.Errorf("model: ordering comparison on booleans")
		}
		if a.B != b.B {
			c = 1
		}
	}
	var r bool
	switch op {
	case "=":
		r = c == 0
	case "!=":
		r = c != 0
	case "<":
		r = c < 0
	case "<=":
		r = c <= 0
	case ">":
		r = c > 0
	case ">=":
		r = c >= 0
	default:
		return False, fmt.Errorf("model: bad operator %q", op)
	}
	if r {
		return True, nil
	}
	return False, nil
}

// EvalCond evaluates a condition tree under SQL's three-valued logic.
func EvalCond(c *proto.Cond, lookup func(*proto.Operand) (Val, error)) (Tri, error) {
	switch c.Op {
	case "or":
		l, err := EvalCond(c.L, lookup)
		if err != nil {
			return False, err
		}
		r, err := EvalCond(c.R, lookup)
		if err != nil {
			return False, err
		}
		switch {
		case l == True || r == True:
			return True, nil
		case l == Unknown || r == Unknown:
			return Unknown, nil
		}
		return False, nil
	case "and":
		l, err := EvalCond(c.L, lookup)
		if err != nil {
			return False, err
		}
		r, err := EvalCond(c.R, lookup)
		if err != nil {
			return False, err
		}
		switch {
		case l == False || r == False:
			return False, nil
		case l == Unknown || r == Unknown:
			return Unknown, nil
		}
		return True, nil
	case "val":
		v, err := operandVal(c.LHS, lookup)
		if err != nil {
			return False, err
		}
		if v.K == 'b' {
			if v.B {
				return True, nil
			}
			return False, nil
		}
		return False, fmt.Errorf("model: non-boolean used as condition")
	}
	a, err := operandVal(c.LHS, lookup)
	if err != nil {
		return False, err
	}
	b, err := operandVal(c.RHS, lookup)
	if err != nil {
		return False, err
	}
	return cmpVals(c.Op, a, b)
}

func operandVal(o *proto.Operand, lookup func(*proto.Operand) (Val, error)) (Val, error) {
	if o.Lit != nil {
		return *o.Lit, nil
	}
	return lookup(o)
}

// ---------- helpers to build conditions ----------

func ColOp(name string) *proto.Operand               { return &proto.Operand{Col: name} }
func QColOp(q, name string) *proto.Operand           { return &proto.Operand{Qual: q, Col: name} }
func LitOp(v Val) *proto.Operand                     { return &proto.Operand{Lit: &v} }
func Cmp(op string, l, r *proto.Operand) *proto.Cond { return &proto.Cond{Op: op, LHS: l, RHS: r} }
func And(l, r *proto.Cond) *proto.Cond               { return &proto.Cond{Op: "and", L: l, R: r} }
func Or(l, r *proto.Cond) *proto.Cond                { return &proto.Cond{Op: "or", L: l, R: r} }
