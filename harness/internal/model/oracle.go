package model

import (
	"fmt"
	"sort"
	"strings"

	"verif/harness/proto"
)

// Diff is a refuting observation: Sig is deterministic in the kind of
// disagreement, What carries the details.
type Diff struct {
	Sig  string
	What string
}

func typeCode(t string) int64 {
	switch t {
	case "int":
		return 0
	case "varchar":
		return 1
	case "boolean":
		return 2
	case "bigint":
		return 3
	}
	return -1
}

func rowStr(vals []Val) string {
	var p []string
	for _, v := range vals {
		s := v.String()
		if len(s) > 40 {
			s = fmt.Sprintf("%s...(%d bytes)", s[:30], len(v.S))
		}
		p = append(p, s)
	}
	return "(" + strings.Join(p, ", ") + ")"
}

func valsEqual(a, b []Val) bool {
	if len(a) != len(b) {
		return false
	}
	for i := range a {
		if !a[i].Equal(b[i]) {
			return false
		}
	}
	return true
}

// Graveyard remembers ids of rows the model deleted, per table.
type Graveyard map[string]map[uint32]bool

func (g Graveyard) Add(table string, id uint32) {
	if id == 0 {
		return
	}
	if g[table] == nil {
		g[table] = map[uint32]bool{}
	}
	g[table][id] = true
}

// CheckDump compares a full dump (sys_pages, sys_schema, every table) with the
// model. When adopt is true and the dump agrees, newly seen row ids are
// recorded in the model and MaxID advances. prefix labels signatures.
func (d *DB) CheckDump(prefix string, tables []proto.TableDump, grave Graveyard, adopt bool) *Diff {
	byName := map[string]*proto.TableDump{}
	for i := range tables {
		t := &tables[i]
		if _, dup := byName[t.Name]; dup {
			return &Diff{prefix + ":catalog:table-listed-twice", "table " + t.Name + " appears twice in sys_pages"}
		}
		byName[t.Name] = t
	}
	pt := byName["sys_pages"]
	if pt == nil {
		return &Diff{prefix + ":catalog:no-sys_pages", "dump has no sys_pages"}
	}
	// catalog: names in creation order
	want := []string{"sys_pages", "sys_schema"}
	for _, t := range d.Tables {
		want = append(want, t.Name)
	}
	var got []string
	for _, r := range pt.Rows {
		if len(r.Vals) > 0 {
			got = append(got, r.Vals[0].S)
		}
	}
	if strings.Join(want, ",") != strings.Join(got, ",") {
		return &Diff{prefix + ":catalog:table-list", fmt.Sprintf("sys_pages lists %v, model has %v", got, want)}
	}
	// catalog: declared columns
	sc := byName["sys_schema"]
	if sc == nil || sc.Err != "" {
		e := ""
		if sc != nil {
			e = sc.Err
		}
		return &Diff{prefix + ":catalog:no-sys_schema", "sys_schema unreadable: " + e}
	}
	var wantCols []string
	for _, t := range d.Tables {
		for _, c := range t.Cols {
			wantCols = append(wantCols, fmt.Sprintf("%s.%s:%d:%d", t.Name, c.Name, typeCode(c.Type), c.Len))
		}
	}
	var gotCols []string
	for _, r := range sc.Rows {
		if len(r.Vals) != 4 {
			return &Diff{prefix + ":catalog:schema-row-shape", "sys_schema row with " + fmt.Sprint(len(r.Vals)) + " values"}
		}
		tn := r.Vals[0].S
		if tn == "sys_pages" || tn == "sys_schema" {
			continue
		}
		gotCols = append(gotCols, fmt.Sprintf("%s.%s:%d:%d", tn, r.Vals[1].S, r.Vals[2].I, r.Vals[3].I))
	}
	if strings.Join(wantCols, ",") != strings.Join(gotCols, ",") {
		return &Diff{prefix + ":catalog:columns", fmt.Sprintf("sys_schema declares %v, model has %v", gotCols, wantCols)}
	}
	// ids of the catalog rows take part in the database-wide id rules
	type seenID struct {
		table string
	}
	ids := map[uint32]string{}
	newMax := d.MaxID
	noteID := func(table string, id uint32) *Diff {
		if other, dup := ids[id]; dup {
			return &Diff{prefix + ":id:shared", fmt.Sprintf("row id %d appears in %s and in %s", id, other, table)}
		}
		ids[id] = table
		if id > newMax {
			newMax = id
		}
		return nil
	}
	for _, sys := range []*proto.TableDump{pt, sc} {
		var prev uint32
		for i, r := range sys.Rows {
			if i > 0 && r.ID <= prev {
				return &Diff{prefix + ":id:not-increasing", fmt.Sprintf("%s: id %d after %d", sys.Name, r.ID, prev)}
			}
			prev = r.ID
			if df := noteID(sys.Name, r.ID); df != nil {
				return df
			}
		}
	}
	for _, t := range d.Tables {
		td := byName[t.Name]
		if td.Err != "" {
			return &Diff{prefix + ":table:select-error", fmt.Sprintf("SELECT * FROM %s failed: %s", t.Name, td.Err)}
		}
		var wc []string
		for _, c := range t.Cols {
			wc = append(wc, c.Name)
		}
		if strings.Join(wc, ",") != strings.Join(td.Cols, ",") {
			return &Diff{prefix + ":table:columns", fmt.Sprintf("%s: SELECT * has columns %v, declared %v", t.Name, td.Cols, wc)}
		}
		if df := d.diffRows(prefix, t, td, grave); df != nil {
			return df
		}
		var prev uint32
		for i, r := range td.Rows {
			if i > 0 && r.ID <= prev {
				return &Diff{prefix + ":id:not-increasing", fmt.Sprintf("%s: id %d after %d", t.Name, r.ID, prev)}
			}
			prev = r.ID
			if df := noteID(t.Name, r.ID); df != nil {
				return df
			}
			mr := t.Rows[i]
			if mr.ID != 0 && mr.ID != r.ID {
				return &Diff{prefix + ":id:changed", fmt.Sprintf("%s: row %s had id %d, now %d", t.Name, rowStr(mr.Vals), mr.ID, r.ID)}
			}
			if mr.ID == 0 && r.ID <= d.MaxID {
				return &Diff{prefix + ":id:reused", fmt.Sprintf("%s: new row %s got id %d, but id %d was already observed in this database", t.Name, rowStr(mr.Vals), r.ID, d.MaxID)}
			}
		}
	}
	if adopt {
		for _, t := range d.Tables {
			td := byName[t.Name]
			for i, r := range td.Rows {
				t.Rows[i].ID = r.ID
			}
		}
		d.MaxID = newMax
	}
	return nil
}

func (d *DB) diffRows(prefix string, t *Table, td *proto.TableDump, grave Graveyard) *Diff {
	n := len(t.Rows)
	if len(td.Rows) == n {
		for i := range t.Rows {
			if !valsEqual(t.Rows[i].Vals, td.Rows[i].Vals) {
				// classify
				return d.classify(prefix, t, td, grave, i)
			}
		}
		return nil
	}
	return d.classify(prefix, t, td, grave, -1)
}

func (d *DB) classify(prefix string, t *Table, td *proto.TableDump, grave Graveyard, at int) *Diff {
	// multiset view
	key := func(v []Val) string {
		var p []string
		for _, x := range v {
			p = append(p, x.Enc())
		}
		return strings.Join(p, "|")
	}
	want := map[string]int{}
	for _, r := range t.Rows {
		want[key(r.Vals)]++
	}
	got := map[string]int{}
	for _, r := range td.Rows {
		got[key(r.Vals)]++
	}
	var missing, extra []string
	for _, r := range t.Rows {
		k := key(r.Vals)
		if got[k] < want[k] {
			missing = append(missing, rowStr(r.Vals))
			got[k]++ // count each once
		}
	}
	got = map[string]int{}
	for _, r := range td.Rows {
		got[key(r.Vals)]++
	}
	resurrected := false
	for _, r := range td.Rows {
		k := key(r.Vals)
		if want[k] < got[k] {
			extra = append(extra, fmt.Sprintf("id %d %s", r.ID, rowStr(r.Vals)))
			want[k]++
			if grave[t.Name][r.ID] {
				resurrected = true
			}
		}
	}
	sort.Strings(missing)
	detail := fmt.Sprintf("table %s: model has %d rows, SELECT * returned %d; missing %v; unexpected %v", t.Name, len(t.Rows), len(td.Rows), trunc(missing, 5), trunc(extra, 5))
	switch {
	case resurrected:
		return &Diff{prefix + ":table:deleted-row-visible", detail}
	case len(missing) > 0 && len(extra) == 0:
		return &Diff{prefix + ":table:row-missing", detail}
	case len(extra) > 0 && len(missing) == 0:
		return &Diff{prefix + ":table:row-unexpected", detail}
	case len(extra) > 0 && len(missing) > 0:
		return &Diff{prefix + ":table:row-content", detail}
	}
	return &Diff{prefix + ":table:row-order", fmt.Sprintf("table %s: same rows, different order (first difference at position %d)", t.Name, at)}
}

func trunc(s []string, n int) []string {
	if len(s) > n {
		return append(append([]string(nil), s[:n]...), fmt.Sprintf("... %d more", len(s)-n))
	}
	return s
}

// StripTable removes every trace of one table from a dump (its rows in
// sys_pages and sys_schema and its own dump): used when a CREATE TABLE was in
// flight at a crash, where the property says nothing about that table.
func StripTable(tables []proto.TableDump, name string) []proto.TableDump {
	var out []proto.TableDump
	for _, t := range tables {
		if t.Name == name {
			continue
		}
		if t.Name == "sys_pages" || t.Name == "sys_schema" {
			nt := proto.TableDump{Name: t.Name, Cols: t.Cols, Err: t.Err}
			for _, r := range t.Rows {
				if len(r.Vals) > 0 && r.Vals[0].K == 's' && r.Vals[0].S == name {
					continue
				}
				nt.Rows = append(nt.Rows, r)
			}
			t = nt
		}
		out = append(out, t)
	}
	return out
}
