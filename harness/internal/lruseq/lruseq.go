// Package lruseq enumerates / generates cache operation sequences and runs
// them against anything that looks like the page cache, recording every
// observable (return values and resident state) after every step. It is
// shared by the driver (real LRUCache) and the orchestrator (reference
// model); it contains no judgement.
package lruseq

import (
	"fmt"
	"hash/fnv"
	"strings"

	"verif/harness/internal/core"
)

const (
	OpSetClean = iota
	OpSetDirty
	OpGet
	OpMarkDirty
	OpMarkClean
	OpRestore // store the resident node itself again (what a flush does for every page it writes)
	NumOps
)

type Step struct{ Op, Key int }

func (s Step) String() string {
	return fmt.Sprintf("%s(%d)", [...]string{"setClean", "setDirty", "get", "markDirty", "markClean", "restore"}[s.Op], s.Key)
}

// Count is the number of sequences of the given depth.
func Count(depth, nkeys int) uint64 {
	n := uint64(1)
	for i := 0; i < depth; i++ {
		n *= uint64(NumOps * nkeys)
	}
	return n
}

// Enum returns sequence number n of the given depth over nkeys keys.
func Enum(n uint64, depth, nkeys int) []Step {
	base := uint64(NumOps * nkeys)
	out := make([]Step, depth)
	for i := depth - 1; i >= 0; i-- {
		d := int(n % base)
		n /= base
		out[i] = Step{Op: d / nkeys, Key: d % nkeys}
	}
	return out
}

// Random returns a seeded random sequence; dirtyPct steers how often pages
// are stored or marked dirty.
func Random(seed uint64, steps, nkeys, dirtyPct int) []Step {
	r := core.NewRand(seed)
	out := make([]Step, steps)
	for i := range out {
		k := r.Intn(nkeys)
		var op int
		switch x := r.Intn(100); {
		case x < 35:
			op = OpSetClean
			if r.Intn(100) < dirtyPct {
				op = OpSetDirty
			}
		case x < 70:
			op = OpGet
		case x < 85:
			op = OpMarkClean
			if r.Intn(100) < dirtyPct {
				op = OpMarkDirty
			}
		case x < 93:
			op = OpRestore
		default:
			op = OpMarkClean
		}
		out[i] = Step{Op: op, Key: k}
	}
	return out
}

type Cache interface {
	Set(key uint64, id uint64, dirty bool) bool
	Get(key uint64) (id uint64, dirty bool, ok bool)
	SetDirty(key uint64, dirty bool) bool
	Restore(key uint64) bool
	State() (keys, ids []uint64, dirty []bool, mapLen, listLen int)
}

// Run executes the steps and returns one observation string per step.
func Run(c Cache, steps []Step) []string { return RunEvery(c, steps, 1) }

// RunEvery is Run with the resident state recorded after every every-th step
// (and after the last one) only; return values are recorded at every step.
// For capacities in the thousands, where a full state per step is too much.
func RunEvery(c Cache, steps []Step, every int) []string {
	if every < 1 {
		every = 1
	}
	out := make([]string, len(steps))
	for i, s := range steps {
		var sb strings.Builder
		key := uint64(s.Key+1) * 4096
		switch s.Op {
		case OpSetClean, OpSetDirty:
			fmt.Fprintf(&sb, "ret=%v", c.Set(key, uint64(i+1), s.Op == OpSetDirty))
		case OpGet:
			id, d, ok := c.Get(key)
			fmt.Fprintf(&sb, "ret=%d,%v,%v", id, d, ok)
		case OpMarkDirty, OpMarkClean:
			fmt.Fprintf(&sb, "ret=%v", c.SetDirty(key, s.Op == OpMarkDirty))
		case OpRestore:
			fmt.Fprintf(&sb, "ret=%v", c.Restore(key))
		}
		if i%every != 0 && i != len(steps)-1 {
			out[i] = sb.String()
			continue
		}
		keys, ids, dirty, ml, ll := c.State()
		fmt.Fprintf(&sb, " map=%d list=%d [", ml, ll)
		for j := range keys {
			fmt.Fprintf(&sb, "%d:%d:%v ", keys[j]/4096-1, ids[j], dirty[j])
		}
		sb.WriteString("]")
		out[i] = sb.String()
	}
	return out
}

// Hash condenses a trace.
func Hash(trace []string) uint64 {
	h := fnv.New64a()
	for _, s := range trace {
		h.Write([]byte(s))
		h.Write([]byte{0})
	}
	return h.Sum64()
}

// Spec describes a batch of sequences.
type Spec struct {
	Cap   int    `json:"cap"`
	Keys  int    `json:"keys"`
	Depth int    `json:"depth,omitempty"` // exhaustive batch: sequences Lo..Hi-1 of this depth
	Lo    uint64 `json:"lo,omitempty"`
	Hi    uint64 `json:"hi,omitempty"`
	Seed  uint64 `json:"seed,omitempty"` // random sequence
	Steps int    `json:"steps,omitempty"`
	Dirty int    `json:"dirty,omitempty"`
	Full  bool   `json:"full,omitempty"` // return the whole trace instead of a hash
	// large capacities: the first Prefill steps store the keys 0..Prefill-1
	// (dirty with probability Dirty%), and the state is recorded every
	// Every-th step only
	Prefill int `json:"prefill,omitempty"`
	Every   int `json:"every,omitempty"`
	// Scan > 0: after the random part, Scan pages that were never resident
	// are stored one after the other with no lookup in between (what a table
	// scan over cold pages does), then a short random tail
	Scan int `json:"scan,omitempty"`
}

func (sp *Spec) Sequences(f func(n uint64, steps []Step)) {
	if sp.Depth > 0 {
		for n := sp.Lo; n < sp.Hi; n++ {
			f(n, Enum(n, sp.Depth, sp.Keys))
		}
		return
	}
	var pre []Step
	if sp.Prefill > 0 {
		r := core.NewRand(sp.Seed ^ 0x9e3779b97f4a7c15)
		for k := 0; k < sp.Prefill; k++ {
			op := OpSetClean
			if r.Intn(100) < sp.Dirty {
				op = OpSetDirty
			}
			pre = append(pre, Step{Op: op, Key: k})
		}
	}
	steps := append(pre, Random(sp.Seed, sp.Steps, sp.Keys, sp.Dirty)...)
	if sp.Scan > 0 {
		for i := 0; i < sp.Scan; i++ {
			steps = append(steps, Step{Op: OpSetClean, Key: sp.Keys + i})
		}
		steps = append(steps, Random(sp.Seed+1, 60, sp.Keys+sp.Scan, sp.Dirty)...)
	}
	f(0, steps)
}
