// Package nodespec describes how to build a tree node with the engine's own
// primitives (shared between orchestrator, which generates specs and judges,
// and driver, which executes them).
package nodespec

// Act is one construction step.
type Act struct {
	A     string `json:"a"` // ins upd del dirty sibs appendInternal right split
	Key   uint32 `json:"key,omitempty"`
	VLen  int    `json:"vlen,omitempty"`
	VSeed uint64 `json:"vseed,omitempty"`
	LSN   uint64 `json:"lsn,omitempty"`
	Child uint64 `json:"child,omitempty"`
	HasL  bool   `json:"hasL,omitempty"`
	HasR  bool   `json:"hasR,omitempty"`
	L     uint64 `json:"l,omitempty"`
	R     uint64 `json:"r,omitempty"`
	Keep  string `json:"keep,omitempty"` // split: continue with "left" or "right" half
	Off   uint64 `json:"off,omitempty"`  // split: offset of the new node
}

type Spec struct {
	Leaf bool   `json:"leaf"`
	Off  uint64 `json:"off"`
	Acts []Act  `json:"acts"`
}

// Value returns the deterministic value bytes for (seed, n).
func Value(seed uint64, n int) []byte {
	b := make([]byte, n)
	s := seed
	for i := range b {
		s += 0x9e3779b97f4a7c15
		z := s
		z = (z ^ (z >> 30)) * 0xbf58476d1ce4e5b9
		z = (z ^ (z >> 27)) * 0x94d049bb133111eb
		b[i] = byte(z ^ (z >> 31))
	}
	return b
}
