// Package gen holds the seeded workload generators.
package gen

import (
	"fmt"
	"strings"

	"verif/harness/internal/core"
	"verif/harness/internal/model"
	"verif/harness/proto"
)

// Hist generates histories of DDL/DML statements that are expected to
// succeed, tracking its own model so that statements make sense.
type Hist struct {
	R         *core.Rand
	DB        *model.DB
	TextOnly  bool // only values SQL text can express
	MaxTables int
	MaxCols   int
	tabSeq    int
	kSeq      map[string]int64 // next value of the key column per table
	Prefix    string
}

func NewHist(r *core.Rand, textOnly bool) *Hist {
	return &Hist{R: r, DB: model.NewDB(), TextOnly: textOnly, MaxTables: 3, MaxCols: 6, kSeq: map[string]int64{}, Prefix: "t"}
}

var colTypes = []string{"int", "bigint", "varchar", "boolean"}

const alphabet = "abcdefghijklmnopqrstuvwxyzABCDEFGHIJKLMNOPQRSTUVWXYZ0123456789 _-.,;:!?#$%&()*+/<=>@[]^{|}~"

func (h *Hist) RandString(n int) string {
	var b strings.Builder
	for i := 0; i < n; i++ {
		if !h.TextOnly && h.R.Chance(1, 20) {
			// bytes SQL text cannot carry
			b.WriteByte([]byte{'\'', '\\', '\n', 0, 0xff, '"', 0xc3}[h.R.Intn(7)])
			continue
		}
		if i+1 < n && h.R.Chance(1, 25) {
			// a quote or backslash the only way SQL text can carry it: as the
			// two characters backslash + that character (mkdb keeps both)
			b.WriteString([]string{"\\'", "\\\"", "\\\\"}[h.R.Intn(3)])
			i++
			continue
		}
		b.WriteByte(alphabet[h.R.Intn(len(alphabet))])
	}
	return b.String()
}

// CreateTable: column 0 is "k INT" (never NULL, ascending per table),
// column 1 is "g INT" (never NULL, small domain); the rest is random and
// nullable. The last column is often a VARCHAR used to size rows.
// NextTableName is the name CreateTable will usually give the next table.
func (h *Hist) NextTableName() string { return fmt.Sprintf("%s%d", h.Prefix, h.tabSeq+1) }

func (h *Hist) CreateTable() *proto.Stmt {
	h.tabSeq++
	name := fmt.Sprintf("%s%d", h.Prefix, h.tabSeq)
	if len(h.DB.Tables) > 0 && h.R.Chance(1, 4) {
		// table names are case-sensitive: a twin that differs from an existing
		// table only in letter case is a different table
		twin := strings.ToUpper(h.DB.Tables[h.R.Intn(len(h.DB.Tables))].Name)
		if h.DB.Table(twin) == nil {
			name = twin
		}
	}
	n := h.R.Range(2, h.MaxCols)
	defs := []proto.ColDef{{Name: "k", Type: "int"}, {Name: "g", Type: "int"}}
	for i := 2; i < n; i++ {
		t := colTypes[h.R.Intn(4)]
		d := proto.ColDef{Name: fmt.Sprintf("c%d", i), Type: t}
		if t == "varchar" {
			d.Len = int64(h.R.Range(1, 255))
		}
		defs = append(defs, d)
	}
	if h.R.Chance(2, 3) {
		defs = append(defs, proto.ColDef{Name: "pad", Type: "varchar", Len: 255})
	}
	return &proto.Stmt{Kind: "create", Table: name, Defs: defs}
}

func (h *Hist) randVal(c model.Col, allowNull bool) proto.Val {
	if allowNull && !h.TextOnly && h.R.Chance(1, 6) {
		return proto.Null()
	}
	switch c.Type {
	case "int":
		switch h.R.Intn(8) {
		case 0:
			return proto.Int(2147483647)
		case 1:
			if !h.TextOnly {
				return proto.Int(-2147483648)
			}
		case 2:
			if !h.TextOnly {
				return proto.Int(-int64(h.R.Intn(1000)))
			}
		}
		return proto.Int(int64(h.R.Intn(100000)))
	case "bigint":
		switch h.R.Intn(8) {
		case 0:
			return proto.Int(9223372036854775807)
		case 1:
			if !h.TextOnly {
				return proto.Int(-9223372036854775808)
			}
		case 2:
			if !h.TextOnly {
				return proto.Int(-int64(h.R.U64() >> 2))
			}
		}
		return proto.Int(int64(h.R.U64() >> 1))
	case "boolean":
		return proto.Bool(h.R.Bool())
	}
	return proto.Str(h.RandString(h.R.Intn(12)))
}

// NewRow builds a row for table t. sizeClass 0 tiny, 1 about 200 bytes,
// 2 close to the 400-byte limit (only with a pad column).
func (h *Hist) NewRow(t *model.Table, sizeClass int) []proto.Val {
	vals := make([]proto.Val, len(t.Cols))
	for i, c := range t.Cols {
		switch {
		case i == 0:
			vals[i] = proto.Int(h.kSeq[t.Name])
			h.kSeq[t.Name]++
		case i == 1:
			vals[i] = proto.Int(int64(h.R.Intn(5)))
		case c.Name == "pad":
			vals[i] = proto.Str("")
		default:
			vals[i] = h.randVal(c, true)
		}
	}
	if pi := t.ColIdx("pad"); pi >= 0 && sizeClass > 0 {
		base := model.EncodedSize(t.Cols, vals)
		target := 200
		if sizeClass == 2 {
			target = model.MaxRowSize - h.R.Intn(4)
		}
		if target > base {
			vals[pi] = proto.Str(h.RandString(target - base))
		}
	}
	for model.EncodedSize(t.Cols, vals) > model.MaxRowSize {
		// shrink the longest string
		li := -1
		for i, v := range vals {
			if v.K == 's' && (li < 0 || len(v.S) > len(vals[li].S)) {
				li = i
			}
		}
		if li < 0 {
			break
		}
		over := model.EncodedSize(t.Cols, vals) - model.MaxRowSize
		s := vals[li].S
		if over > len(s) {
			over = len(s)
		}
		vals[li] = proto.Str(s[:len(s)-over])
	}
	return vals
}

func (h *Hist) Insert(t *model.Table, rows int) *proto.Stmt {
	s := &proto.Stmt{Kind: "insert", Table: t.Name}
	sc := h.R.Intn(3)
	if h.R.Chance(1, 2) {
		sc = 0
	}
	subset := h.R.Chance(1, 5) && !h.TextOnly && len(t.Cols) > 2
	if h.R.Chance(1, 3) || subset {
		for _, c := range t.Cols {
			s.Cols = append(s.Cols, c.Name)
		}
	}
	if subset {
		// drop one nullable column: it becomes NULL
		drop := h.R.Range(2, len(t.Cols)-1)
		s.Cols = append(append([]string(nil), s.Cols[:drop]...), s.Cols[drop+1:]...)
		for i := 0; i < rows; i++ {
			full := h.NewRow(t, sc)
			s.Rows = append(s.Rows, append(append([]proto.Val(nil), full[:drop]...), full[drop+1:]...))
		}
		return s
	}
	for i := 0; i < rows; i++ {
		s.Rows = append(s.Rows, h.NewRow(t, sc))
	}
	return s
}

// Where builds a condition over the never-NULL columns k and g.
// Where returns a condition over k and g. One condition in five is written
// with the literal on the left of each comparison (4 < k for k > 4): the
// same condition, another spelling.
func (h *Hist) Where(t *model.Table) *proto.Cond {
	c := h.where(t)
	if h.R.Chance(1, 5) {
		c = mirrorCond(c)
	}
	return c
}

func mirrorCond(c *proto.Cond) *proto.Cond {
	if c == nil {
		return nil
	}
	if c.Op == "and" || c.Op == "or" {
		return &proto.Cond{Op: c.Op, L: mirrorCond(c.L), R: mirrorCond(c.R)}
	}
	if c.LHS == nil || c.RHS == nil || c.LHS.Lit != nil || c.RHS.Lit == nil {
		return c
	}
	op, ok := map[string]string{"=": "=", "!=": "!=", "<": ">", ">": "<", "<=": ">=", ">=": "<="}[c.Op]
	if !ok {
		return c
	}
	return &proto.Cond{Op: op, LHS: c.RHS, RHS: c.LHS}
}

func (h *Hist) where(t *model.Table) *proto.Cond {
	maxK := h.kSeq[t.Name]
	if maxK == 0 {
		maxK = 1
	}
	k := func() *proto.Operand { return model.LitOp(proto.Int(int64(h.R.Intn(int(maxK) + 1)))) }
	kc := model.ColOp("k")
	switch h.R.Intn(9) {
	case 0:
		return model.Cmp("=", kc, k())
	case 1:
		lo := int64(h.R.Intn(int(maxK) + 1))
		return model.And(model.Cmp(">=", kc, model.LitOp(proto.Int(lo))), model.Cmp("<", kc, model.LitOp(proto.Int(lo+int64(h.R.Range(1, 6))))))
	case 2:
		return model.Cmp("=", model.ColOp("g"), model.LitOp(proto.Int(int64(h.R.Intn(5)))))
	case 3:
		return model.Or(model.Cmp("=", kc, k()), model.Cmp("=", kc, k()))
	case 4:
		return model.And(model.Cmp("=", model.ColOp("g"), model.LitOp(proto.Int(int64(h.R.Intn(5))))), model.Cmp(">", kc, k()))
	case 5:
		// the most recent rows: where tombstones meet the next split
		lo := maxK - int64(h.R.Range(1, 6))
		if lo < 0 {
			lo = 0
		}
		return model.Cmp(">=", kc, model.LitOp(proto.Int(lo)))
	case 6:
		return model.Cmp("!=", kc, k())
	case 7:
		return model.Cmp("<=", kc, k())
	}
	return model.Cmp("=", kc, model.LitOp(proto.Int(maxK-1)))
}

func (h *Hist) Update(t *model.Table) *proto.Stmt {
	s := &proto.Stmt{Kind: "update", Table: t.Name}
	n := 1
	if len(t.Cols) > 2 && h.R.Chance(1, 3) {
		n = 2
	}
	used := map[int]bool{}
	for i := 0; i < n; i++ {
		ci := h.R.Range(1, len(t.Cols)-1)
		if used[ci] {
			continue
		}
		used[ci] = true
		c := t.Cols[ci]
		var v proto.Val
		switch {
		case ci == 1:
			v = proto.Int(int64(h.R.Intn(5)))
		case c.Name == "pad":
			v = proto.Str(h.RandString(h.R.Intn(20))) // short: cannot overflow a fitting row much
		default:
			v = h.randVal(c, true)
		}
		s.Sets = append(s.Sets, proto.SetItem{Col: c.Name, Val: v})
	}
	if len(s.Sets) > 0 && len(s.Sets) < len(t.Cols) && h.R.Chance(1, 12) {
		// the same assignments written several times (same column, same
		// value: whichever of them counts, the outcome is the same), so that
		// the SET list is as long as the table is wide, or longer, without
		// naming every column
		base := len(s.Sets)
		for want := len(t.Cols) + h.R.Intn(3); len(s.Sets) < want; {
			s.Sets = append(s.Sets, s.Sets[h.R.Intn(base)])
		}
	}
	if h.R.Chance(9, 10) {
		s.Where = h.Where(t)
	}
	return s
}

func (h *Hist) Delete(t *model.Table) *proto.Stmt {
	s := &proto.Stmt{Kind: "delete", Table: t.Name}
	if h.R.Chance(19, 20) {
		s.Where = h.Where(t)
	}
	return s
}

// Next returns the next statement of the history and applies it to the
// generator's model. Statements whose plan fails (an update that would
// overflow a row) are re-drawn.
func (h *Hist) Next() *proto.Stmt {
	for tries := 0; ; tries++ {
		var s *proto.Stmt
		var usable []*model.Table
		for _, t := range h.DB.Tables {
			if Usable(t) {
				usable = append(usable, t)
			}
		}
		nt := len(usable)
		switch {
		case nt == 0 || (len(h.DB.Tables) < h.MaxTables && (h.R.Chance(1, 12) || (h.MaxTables >= 8 && h.R.Chance(1, 3)))):
			s = h.CreateTable()
		default:
			t := usable[h.R.Intn(nt)]
			switch x := h.R.Intn(20); {
			case x < 10:
				rows := h.R.Range(1, 4)
				if h.R.Chance(1, 4) {
					rows = h.R.Range(5, 12)
				}
				s = h.Insert(t, rows)
			case x < 14:
				s = h.Update(t)
			case x < 19:
				s = h.Delete(t)
			default:
				s = h.Insert(t, h.R.Range(1, 3))
			}
		}
		fail, _, _, err := h.DB.Apply(s)
		if err == nil && fail == "" {
			return s
		}
		if tries > 50 {
			panic(fmt.Sprintf("generator cannot produce a valid statement: %v %v", fail, err))
		}
	}
}

// NextRowChange returns an UPDATE or DELETE on a table that has rows (nil when
// there is none), applied to the model: a statement that changes existing
// pages and never allocates one.
func (h *Hist) NextRowChange() *proto.Stmt {
	var usable []*model.Table
	for _, t := range h.DB.Tables {
		if Usable(t) && len(t.Rows) > 0 {
			usable = append(usable, t)
		}
	}
	if len(usable) == 0 {
		return nil
	}
	for tries := 0; tries < 50; tries++ {
		t := usable[h.R.Intn(len(usable))]
		var s *proto.Stmt
		if h.R.Chance(2, 3) {
			s = h.Update(t)
		} else {
			s = h.Delete(t)
		}
		if fail, _, _, err := h.DB.Apply(s); err == nil && fail == "" {
			return s
		}
	}
	return nil
}

// Burst returns a large insert into t (rows rows), applied to the model.
func (h *Hist) Burst(t *model.Table, rows int) *proto.Stmt {
	s := &proto.Stmt{Kind: "insert", Table: t.Name}
	for i := 0; i < rows; i++ {
		s.Rows = append(s.Rows, h.NewRow(t, 0))
	}
	if fail, _, _, err := h.DB.Apply(s); fail != "" || err != nil {
		panic("burst failed in model")
	}
	return s
}

// HistFrom continues generating from an existing model state (which it
// clones): used for statements issued after a crash and recovery.
func HistFrom(r *core.Rand, db *model.DB, textOnly bool) *Hist {
	h := &Hist{R: r, DB: db.Clone(), TextOnly: textOnly, MaxTables: len(db.Tables) + 1, MaxCols: 6, kSeq: map[string]int64{}, Prefix: "t"}
	h.tabSeq = len(db.Tables) + 100
	for _, t := range h.DB.Tables {
		var mx int64 = -1
		if t.ColIdx("k") == 0 {
			for _, row := range t.Rows {
				if row.Vals[0].K == 'i' && row.Vals[0].I > mx {
					mx = row.Vals[0].I
				}
			}
		}
		h.kSeq[t.Name] = mx + 1000 // never collides with keys of deleted rows
	}
	return h
}

// Usable reports whether the generator's WHERE/row builders can work on t
// (tables made by CreateTable: k and g first).
func Usable(t *model.Table) bool {
	return len(t.Cols) >= 2 && t.Cols[0].Name == "k" && t.Cols[1].Name == "g"
}
