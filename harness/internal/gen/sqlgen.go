package gen

import (
	"fmt"
	"math"
	"strings"

	"verif/harness/internal/core"
	"verif/harness/internal/model"
	"verif/harness/proto"
)

// FieldInfo describes a column a query may refer to.
type FieldInfo struct {
	Qual, Name, Type string
	Ambiguous        bool // the bare name exists on several tables of the query
	Nullable         bool // may be NULL-padded (outer join side)
}

// SQLGen generates well-typed queries over a model database.
type SQLGen struct {
	R  *core.Rand
	DB *model.DB
}

var strDomain = []string{"", "a", "b", "ab", "B", "a b", "abc", "z", "a  b", " a b", "it\\'s", "a\\\\b", "\"q\"", "true", "false", "order", "and", "*", "=", "select", "TRUE", "null"}

func (g *SQLGen) LitFor(t string) proto.Val {
	r := g.R
	switch t {
	case "int":
		return proto.Int(int64(r.Intn(7)))
	case "bigint":
		return proto.Int([]int64{0, 1, 2, 1 << 40, 9223372036854775807}[r.Intn(5)])
	case "boolean":
		return proto.Bool(r.Bool())
	}
	return proto.Str(strDomain[r.Intn(len(strDomain))])
}

// DataFor is LitFor for values that are stored (not written in a query):
// BIGINT columns also hold negative numbers - SQL text has no negative
// literals, but rows arrive through csvimport and the engine's API - down to
// the smallest one, and pairs whose difference does not fit 64 bits.
func (g *SQLGen) DataFor(t string) proto.Val {
	if t == "bigint" && g.R.Chance(1, 3) {
		return proto.Int([]int64{-1, -(1 << 40), -9223372036854775808, -5000000000000000000, 5000000000000000000, -9223372036854775807}[g.R.Intn(6)])
	}
	return g.LitFor(t)
}

// StdTable builds the standard table shape used by C05-C07: u unique INT,
// a small-domain INT, b BIGINT, s VARCHAR, f BOOLEAN (all non-NULL).
func (g *SQLGen) StdTable(name string, rows int, extra ...proto.ColDef) (*proto.Stmt, *proto.Stmt) {
	return g.ShapedTable(name, rows, nil, extra...)
}

// ShapedTable is StdTable without the standard columns named in drop (u and
// a always stay): tables of different widths under one naming scheme.
func (g *SQLGen) ShapedTable(name string, rows int, drop []string, extra ...proto.ColDef) (*proto.Stmt, *proto.Stmt) {
	var defs []proto.ColDef
	for _, d := range []proto.ColDef{{Name: "u", Type: "int"}, {Name: "a", Type: "int"}, {Name: "b", Type: "bigint"}, {Name: "s", Type: "varchar", Len: 20}, {Name: "f", Type: "boolean"}} {
		keep := true
		for _, x := range drop {
			if x == d.Name && x != "u" && x != "a" {
				keep = false
			}
		}
		if keep {
			defs = append(defs, d)
		}
	}
	nstd := len(defs)
	defs = append(defs, extra...)
	ct := &proto.Stmt{Kind: "create", Table: name, Defs: defs}
	ins := &proto.Stmt{Kind: "insert", Table: name}
	perm := make([]int, rows)
	for i := range perm {
		perm[i] = i
	}
	for i := len(perm) - 1; i > 0; i-- {
		j := g.R.Intn(i + 1)
		perm[i], perm[j] = perm[j], perm[i]
	}
	for i := 0; i < rows; i++ {
		row := []proto.Val{proto.Int(int64(perm[i])), g.LitFor("int")}
		for _, d := range defs[2:nstd] {
			row = append(row, g.DataFor(d.Type))
		}
		for _, d := range extra {
			row = append(row, g.DataFor(d.Type))
		}
		ins.Rows = append(ins.Rows, row)
	}
	return ct, ins
}

func (g *SQLGen) operandOf(f FieldInfo, qualify bool) *proto.Operand {
	if f.Ambiguous || qualify {
		return &proto.Operand{Qual: f.Qual, Col: f.Name}
	}
	return &proto.Operand{Col: f.Name}
}

// Cmp builds one well-typed comparison over the fields. eqOnlyNullable:
// columns that may be NULL-padded are only compared with = against a column.
func (g *SQLGen) Cmp(fields []FieldInfo) *proto.Cond {
	r := g.R
	for {
		f := fields[r.Intn(len(fields))]
		if f.Nullable {
			continue
		}
		ops := []string{"=", "!=", "<", "<=", ">", ">="}
		if f.Type == "boolean" {
			ops = ops[:2]
		}
		op := ops[r.Intn(len(ops))]
		lhs := g.operandOf(f, r.Chance(1, 4))
		var rhs *proto.Operand
		if r.Chance(1, 4) {
			// column vs column of the same type
			var same []FieldInfo
			for _, o := range fields {
				if o.Type == f.Type && !o.Nullable {
					same = append(same, o)
				}
			}
			rhs = g.operandOf(same[r.Intn(len(same))], r.Chance(1, 4))
		} else {
			rhs = model.LitOp(g.LitFor(f.Type))
		}
		if r.Chance(1, 8) {
			lhs, rhs = rhs, lhs
			switch op {
			case "<":
				op = ">"
			case ">":
				op = "<"
			case "<=":
				op = ">="
			case ">=":
				op = "<="
			}
		}
		return &proto.Cond{Op: op, LHS: lhs, RHS: rhs}
	}
}

// BoolShape builds an OR-of-ANDs from a shape: shape[i] is the number of
// comparisons in the i-th AND group. Trees nest to the right.
func BoolShape(shape []int, next func() *proto.Cond) *proto.Cond {
	var groups []*proto.Cond
	for _, n := range shape {
		var preds []*proto.Cond
		for i := 0; i < n; i++ {
			preds = append(preds, next())
		}
		c := preds[len(preds)-1]
		for i := len(preds) - 2; i >= 0; i-- {
			c = model.And(preds[i], c)
		}
		groups = append(groups, c)
	}
	c := groups[len(groups)-1]
	for i := len(groups) - 2; i >= 0; i-- {
		c = model.Or(groups[i], c)
	}
	return c
}

// Shapes enumerates all compositions of n (every AND/OR pattern of n
// predicates: 2^(n-1) of them).
func Shapes(n int) [][]int {
	var out [][]int
	for mask := 0; mask < 1<<uint(n-1); mask++ {
		var shape []int
		cur := 1
		for i := 0; i < n-1; i++ {
			if mask&(1<<uint(i)) != 0 { // OR after predicate i
				shape = append(shape, cur)
				cur = 1
			} else {
				cur++
			}
		}
		shape = append(shape, cur)
		out = append(out, shape)
	}
	return out
}

func (g *SQLGen) Cond(fields []FieldInfo, maxPreds int) *proto.Cond {
	n := g.R.Range(1, maxPreds)
	shapes := Shapes(n)
	return BoolShape(shapes[g.R.Intn(len(shapes))], func() *proto.Cond { return g.Cmp(fields) })
}

func TableFields(t *model.Table, qual string) []FieldInfo {
	var out []FieldInfo
	for _, c := range t.Cols {
		out = append(out, FieldInfo{Qual: qual, Name: c.Name, Type: c.Type})
	}
	return out
}

func valExpr(o *proto.Operand) *proto.Cond { return &proto.Cond{Op: "val", LHS: o} }

// Select5 builds a single-table query (C05).
func (g *SQLGen) Select5(t *model.Table) *proto.NStmt {
	r := g.R
	n := &proto.NStmt{Kind: "select", From: []proto.NTable{{Name: t.Name}}}
	q := t.Name
	if r.Chance(1, 3) {
		n.From[0].Alias = "x"
		q = "x"
	}
	fields := TableFields(t, q)
	type outCol struct {
		name string
		typ  string
		uniq bool
	}
	var outs []outCol
	if r.Chance(1, 3) {
		n.Star = true
		for _, f := range fields {
			outs = append(outs, outCol{f.Name, f.Type, f.Name == "u"})
		}
	} else {
		k := r.Range(1, 5)
		if r.Chance(1, 5) {
			// more entries than the table has columns
			k = r.Range(len(fields)+1, len(fields)+4)
		}
		used := map[string]bool{}
		for i := 0; i < k; i++ {
			it := proto.NItem{Kind: "expr"}
			name := ""
			typ := ""
			switch x := r.Intn(10); {
			case x < 6:
				f := fields[r.Intn(len(fields))]
				it.Expr = valExpr(g.operandOf(f, r.Chance(1, 3)))
				name, typ = f.Name, f.Type
			case x < 8:
				it.Expr = g.Cmp(fields)
				typ = "boolean"
			default:
				v := g.LitFor([]string{"int", "varchar", "boolean"}[r.Intn(3)])
				it.Expr = valExpr(model.LitOp(v))
				typ = map[byte]string{'i': "int", 's': "varchar", 'b': "boolean"}[v.K]
			}
			if r.Chance(1, 3) || name == "" && r.Chance(1, 2) {
				it.Alias = fmt.Sprintf("al%d", i)
				if other := fields[r.Intn(len(fields))].Name; r.Chance(1, 4) && other != name && !used[other] {
					// an alias that is the name of ANOTHER column of the table:
					// WHERE sees the table's column, ORDER BY the alias
					it.Alias = other
				}
				name = it.Alias
			}
			if name != "" && used[name] {
				// keep output names unique so that ORDER BY keys are unambiguous
				it.Alias = fmt.Sprintf("al%d", i)
				name = it.Alias
			}
			used[name] = true
			n.Items = append(n.Items, it)
			uniq := false
			if it.Expr.Op == "val" && it.Expr.LHS.Lit == nil && it.Expr.LHS.Col == "u" {
				uniq = true
			}
			outs = append(outs, outCol{name, typ, uniq})
		}
	}
	if r.Chance(2, 3) {
		n.Where = g.Cond(fields, 6)
	}
	if r.Chance(2, 3) {
		k := r.Range(1, 3)
		used := map[string]bool{}
		for i := 0; i < k; i++ {
			var named []outCol
			for _, o := range outs {
				if o.name != "" && !used[o.name] {
					named = append(named, o)
				}
			}
			if len(named) == 0 {
				break
			}
			o := named[r.Intn(len(named))]
			used[o.name] = true
			n.OrderBy = append(n.OrderBy, proto.NOrder{Col: proto.Operand{Col: o.name}, Desc: r.Bool()})
		}
		if len(n.OrderBy) > 0 && r.Chance(1, 6) {
			// a key named a second time, further right, with a direction of
			// its own: legal, and without effect - the first mention decides
			j := r.Intn(len(n.OrderBy))
			rep := proto.NOrder{Col: n.OrderBy[j].Col, Desc: r.Bool()}
			if r.Bool() {
				rep.Desc = !n.OrderBy[j].Desc
			}
			at := r.Range(j+1, len(n.OrderBy))
			n.OrderBy = append(n.OrderBy[:at], append([]proto.NOrder{rep}, n.OrderBy[at:]...)...)
		}
	}
	switch r.Intn(4) {
	case 0:
		n.HasLimit, n.Limit = true, []int{0, 1, 2, 5, 1000}[r.Intn(5)]
	case 1:
		n.HasOffset, n.Offset = true, []int{0, 1, 3, 1000}[r.Intn(4)]
	case 2:
		n.HasLimit, n.Limit = true, r.Intn(8)
		n.HasOffset, n.Offset = true, r.Intn(8)
	}
	if r.Chance(1, 25) {
		// the largest values the clauses can carry ("all rows from the n-th on")
		n.HasLimit, n.Limit = true, []int{math.MaxInt64, math.MaxInt64 - 1, 1 << 62}[r.Intn(3)]
		n.HasOffset, n.Offset = r.Bool(), []int{1, 2, math.MaxInt64}[r.Intn(3)]
	}
	return n
}

// Join6 builds a join chain over up to three tables (C06).
func (g *SQLGen) Join6(tables []*model.Table) *proto.NStmt {
	r := g.R
	n := &proto.NStmt{Kind: "select"}
	nj := r.Range(1, 2)
	var fields []FieldInfo
	names := map[string]int{}
	add := func(t *model.Table, alias string, nullable bool) {
		q := t.Name
		if alias != "" {
			q = alias
		}
		for _, f := range TableFields(t, q) {
			f.Nullable = nullable
			fields = append(fields, f)
			names[f.Name]++
		}
	}
	selfJoin := r.Chance(1, 5)
	for i := 0; i <= nj; i++ {
		t := tables[r.Intn(len(tables))]
		if selfJoin && i > 0 {
			t = g.DB.Table(n.From[0].Name)
		}
		alias := ""
		for _, prev := range n.From {
			if prev.Name == t.Name {
				alias = fmt.Sprintf("j%d", i)
			}
		}
		if alias == "" && r.Chance(1, 3) {
			alias = fmt.Sprintf("j%d", i)
		}
		if selfJoin && i == 0 {
			alias = "j0"
		}
		if i > 0 && r.Chance(1, 4) {
			// identifiers are case-sensitive: a correlation name that differs
			// from an earlier one only in letter case names another table
			first := n.From[0].Alias
			if first == "" {
				first = n.From[0].Name
			}
			twin := strings.ToUpper(first)
			taken := twin == first
			for _, prev := range n.From {
				if prev.Alias == twin || (prev.Alias == "" && prev.Name == twin) {
					taken = true
				}
			}
			if !taken {
				alias = twin
			}
		}
		nt := proto.NTable{Name: t.Name, Alias: alias}
		if i > 0 {
			nt.Join = []string{"inner", "left", "right"}[r.Intn(3)]
		}
		n.From = append(n.From, nt)
	}
	// ON conditions: built over the fields visible so far. A side that may
	// have been NULL-padded by an earlier outer join is only used in "=" with
	// a stored column.
	for i := 0; i <= nj; i++ {
		t := g.DB.Table(n.From[i].Name)
		if i == 0 {
			add(t, n.From[i].Alias, false)
			continue
		}
		// which earlier fields can be NULL-padded by now
		padded := false
		for j := 1; j < i; j++ {
			if n.From[j].Join != "inner" {
				padded = true
			}
		}
		if padded {
			for k := range fields {
				fields[k].Nullable = true
			}
		}
		add(t, n.From[i].Alias, false)
		for k := range fields {
			fields[k].Ambiguous = names[fields[k].Name] > 1
		}
		q := t.Name
		if n.From[i].Alias != "" {
			q = n.From[i].Alias
		}
		// key equality between the new table and an earlier one, optionally
		// widened with further predicates on non-nullable fields
		var left []FieldInfo
		for _, f := range fields {
			if f.Qual != q {
				left = append(left, f)
			}
		}
		var cands []string
		for _, k := range []string{"a", "u", "s", "b"} {
			inLeft, inNew := false, false
			for _, f := range left {
				inLeft = inLeft || f.Name == k
			}
			for _, c := range t.Cols {
				inNew = inNew || c.Name == k
			}
			if inLeft && inNew {
				cands = append(cands, k)
			}
		}
		kf := cands[r.Intn(len(cands))] // u and a are in every table
		var lf FieldInfo
		for _, f := range left {
			if f.Name == kf {
				lf = f
			}
		}
		eq := &proto.Cond{Op: "=", LHS: &proto.Operand{Qual: lf.Qual, Col: kf}, RHS: &proto.Operand{Qual: q, Col: kf}}
		on := eq
		var nn []FieldInfo
		for _, f := range fields {
			if !f.Nullable {
				nn = append(nn, f)
			}
		}
		if len(nn) > 0 {
			switch r.Intn(4) {
			case 0:
				on = model.And(eq, g.Cmp(nn))
			case 1:
				on = model.Or(eq, g.Cmp(nn))
			}
		}
		if !padded && r.Chance(1, 6) {
			on = g.Cond(nn, 3)
		}
		switch r.Intn(24) {
		case 0, 1:
			// a condition that is a bare boolean literal: every pair of rows
			// qualifies or none does - and an outer join still pads
			on = valExpr(model.LitOp(proto.Bool(r.Bool())))
		case 2:
			// (there are no parentheses in the grammar: an OR cannot be an operand of AND)
			if on.Op != "or" {
				on = model.And(on, valExpr(model.LitOp(proto.Bool(r.Bool()))))
			}
		case 3:
			on = model.Or(valExpr(model.LitOp(proto.Bool(r.Bool()))), on)
		}
		n.From[i].On = on
	}
	// after the last join every side touched by an outer join is nullable
	// for WHERE purposes: WHERE only uses fields of inner-joined chains
	anyOuter := false
	for i := 1; i <= nj; i++ {
		if n.From[i].Join != "inner" {
			anyOuter = true
		}
	}
	if r.Chance(1, 2) {
		n.Star = true
	} else {
		k := r.Range(1, 5)
		for i := 0; i < k; i++ {
			f := fields[r.Intn(len(fields))]
			n.Items = append(n.Items, proto.NItem{Kind: "expr", Expr: valExpr(&proto.Operand{Qual: f.Qual, Col: f.Name})})
		}
	}
	if !anyOuter && r.Chance(1, 3) {
		for k := range fields {
			fields[k].Nullable = false
		}
		n.Where = g.Cond(fields, 3)
	}
	if r.Chance(1, 5) {
		// LIMIT / OFFSET on a join: which rows come back is open (no ORDER
		// BY), but there must be the right number of them and each must be a
		// row of the full join result
		if r.Chance(3, 4) {
			n.HasLimit, n.Limit = true, r.Range(1, 4)
		}
		if !n.HasLimit || r.Chance(1, 3) {
			n.HasOffset, n.Offset = true, r.Range(0, 3)
		}
	}
	return n
}

// AggTable is the table shape for C07: grouping columns with values whose
// printed forms collide when concatenated, integer columns for AVG, a
// nullable column for COUNT(col).
func (g *SQLGen) AggTable(name string, rows int) (*proto.Stmt, [][]proto.Val) {
	defs := []proto.ColDef{
		{Name: "n0", Type: "int"}, // nullable, first column of the table
		{Name: "g1", Type: "varchar", Len: 10}, {Name: "g2", Type: "varchar", Len: 10},
		{Name: "gi", Type: "int"}, {Name: "gj", Type: "int"}, {Name: "gb", Type: "boolean"},
		{Name: "v", Type: "int"}, {Name: "w", Type: "bigint"}, {Name: "nn", Type: "int"},
	}
	r := g.R
	var out [][]proto.Val
	for i := 0; i < rows; i++ {
		v := proto.Int([]int64{1, 2, 4, 0, 7, -3, 100, 2147483647, -2147483648}[r.Intn(9)])
		if r.Chance(1, 3) {
			v = proto.Int(int64(r.Intn(10)))
		}
		nn := proto.Int(int64(r.Intn(3)))
		if r.Chance(1, 3) {
			nn = proto.Null()
		}
		n0 := proto.Int(int64(r.Intn(4)))
		if r.Chance(1, 3) {
			n0 = proto.Null()
		}
		out = append(out, []proto.Val{
			n0,
			proto.Str([]string{"1", "12", "", "true", "1 2"}[r.Intn(5)]),
			proto.Str([]string{"23", "3", "", "1", "2"}[r.Intn(5)]),
			proto.Int([]int64{1, 12}[r.Intn(2)]), proto.Int([]int64{23, 3}[r.Intn(2)]), proto.Bool(r.Bool()),
			v, proto.Int([]int64{0, 1, 2, 5, 1 << 40, 4611686018427387904, -7}[r.Intn(7)]), nn,
		})
	}
	return &proto.Stmt{Kind: "create", Table: name, Defs: defs}, out
}

// Agg7 builds an aggregate query over an AggTable (C07). join: a second
// table name to join on top (its columns k INT, label VARCHAR), or "".
func (g *SQLGen) Agg7(table string, join string) *proto.NStmt {
	r := g.R
	n := &proto.NStmt{Kind: "select", From: []proto.NTable{{Name: table}}}
	q := table
	if r.Chance(1, 3) {
		n.From[0].Alias = "t"
		q = "t"
	}
	if join != "" && join != "aliastwin" {
		da := "d"
		if join == "dim" && q == "t" && r.Chance(1, 2) {
			da = "T" // differs from the first table's correlation name in letter case only
		}
		n.From = append(n.From, proto.NTable{Name: join, Alias: da, Join: []string{"inner", "left", "right"}[r.Intn(3)],
			On: &proto.Cond{Op: "=", LHS: &proto.Operand{Qual: q, Col: "gi"}, RHS: &proto.Operand{Qual: da, Col: "k"}}})
	}
	// a RIGHT JOIN pads the aggregated table's side with NULLs: then only
	// COUNT is asked for (AVG over NULL and comparisons with NULL are outside
	// the property)
	padded := len(n.From) > 1 && n.From[1].Join == "right"
	if join == "aliastwin" {
		// one grouping column carries, as its alias, the NAME of the other
		// grouping column; GROUP BY names both with qualifiers. Grouping by the
		// two columns, or refusing the query as ambiguous, are both fine -
		// grouping by one of them only is not
		n.From = n.From[:1]
		if n.From[0].Alias == "" {
			n.From[0].Alias = "t"
			q = "t"
		}
		n.Items = []proto.NItem{
			{Kind: "expr", Expr: valExpr(&proto.Operand{Qual: q, Col: "gj"}), Alias: "gi"},
			{Kind: "expr", Expr: valExpr(&proto.Operand{Qual: q, Col: "gi"})},
			{Kind: "count"},
		}
		if r.Bool() {
			n.Items[0], n.Items[1] = n.Items[1], n.Items[0]
		}
		n.GroupBy = []proto.Operand{{Qual: q, Col: "gi"}, {Qual: q, Col: "gj"}}
		if r.Bool() {
			n.GroupBy[0], n.GroupBy[1] = n.GroupBy[1], n.GroupBy[0]
		}
		return n
	}
	if join == "both" {
		// two narrow tables joined to the wide aggregated one, grouping by a
		// column of each
		n.From[1] = proto.NTable{Name: "dim", Alias: "d", Join: []string{"inner", "left"}[r.Intn(2)],
			On: &proto.Cond{Op: "=", LHS: &proto.Operand{Qual: q, Col: "gi"}, RHS: &proto.Operand{Qual: "d", Col: "k"}}}
		n.From = append(n.From, proto.NTable{Name: "dim2", Alias: "e", Join: []string{"inner", "left"}[r.Intn(2)],
			On: &proto.Cond{Op: "=", LHS: &proto.Operand{Qual: q, Col: "gj"}, RHS: &proto.Operand{Qual: "e", Col: "gj"}}})
		n.Items = []proto.NItem{
			{Kind: "expr", Expr: valExpr(&proto.Operand{Qual: "d", Col: "label"})},
			{Kind: "expr", Expr: valExpr(&proto.Operand{Qual: "e", Col: "gi"})},
			{Kind: "count"},
			{Kind: "count", Arg: &proto.Operand{Qual: "e", Col: "gj"}},
		}
		n.GroupBy = []proto.Operand{{Qual: "d", Col: "label"}, {Qual: "e", Col: "gi"}}
		return n
	}
	if join == "dim2" {
		e := "e"
		if q == "t" && r.Bool() {
			e = "T" // a correlation name that differs from the first one in letter case only
		}
		// a joined table that shares column names (gi, gj) with the aggregated
		// one: grouping columns are the same-named columns of both sides,
		// written with qualifiers
		n.From[1] = proto.NTable{Name: "dim2", Alias: e, Join: []string{"inner", "left"}[r.Intn(2)],
			On: &proto.Cond{Op: "=", LHS: &proto.Operand{Qual: q, Col: "gj"}, RHS: &proto.Operand{Qual: e, Col: "gj"}}}
		n.Items = []proto.NItem{
			{Kind: "expr", Expr: valExpr(&proto.Operand{Qual: q, Col: "gi"})},
			{Kind: "expr", Expr: valExpr(&proto.Operand{Qual: e, Col: "gi"})},
			{Kind: "count"},
		}
		if r.Bool() {
			n.Items = append(n.Items, proto.NItem{Kind: "count", Arg: &proto.Operand{Qual: e, Col: "gj"}})
		}
		n.GroupBy = []proto.Operand{{Qual: q, Col: "gi"}, {Qual: e, Col: "gi"}}
		if r.Bool() {
			n.GroupBy[0], n.GroupBy[1] = n.GroupBy[1], n.GroupBy[0]
		}
		return n
	}
	gcols := []string{"g1", "g2", "gi", "gj", "gb"}
	ng := r.Intn(4) // 0..3 grouping columns
	perm := r.Intn(120)
	_ = perm
	// pick ng distinct grouping columns
	var picked []string
	for len(picked) < ng {
		c := gcols[r.Intn(len(gcols))]
		dup := false
		for _, p := range picked {
			if p == c {
				dup = true
			}
		}
		if !dup {
			picked = append(picked, c)
		}
	}
	type gitem struct {
		item proto.NItem
		ref  proto.Operand
	}
	var gitems []gitem
	for i, c := range picked {
		it := proto.NItem{Kind: "expr"}
		var ref proto.Operand
		switch r.Intn(3) {
		case 0: // bare name
			it.Expr = valExpr(&proto.Operand{Col: c})
			ref = proto.Operand{Col: c}
		case 1: // qualifier
			it.Expr = valExpr(&proto.Operand{Qual: q, Col: c})
			ref = proto.Operand{Qual: q, Col: c}
			if r.Bool() {
				ref = proto.Operand{Col: c}
			}
		default: // alias
			it.Expr = valExpr(&proto.Operand{Col: c})
			it.Alias = fmt.Sprintf("grp%d", i)
			ref = proto.Operand{Col: it.Alias}
			if i == 0 && r.Chance(1, 3) {
				// the alias is the NAME of another column of the table, one
				// that aggregates take as their argument: COUNT(v) / AVG(v)
				// still mean the column, not the aliased grouping column
				it.Alias = []string{"v", "w", "n0", "nn"}[r.Intn(4)]
				ref = proto.Operand{Col: c}
				if r.Bool() {
					ref.Qual = q
					it.Expr = valExpr(&proto.Operand{Qual: q, Col: c})
				}
			}
		}
		gitems = append(gitems, gitem{it, ref})
	}
	var aggs []proto.NItem
	na := r.Range(1, 3)
	if !padded && r.Chance(1, 25) {
		// a select list of 60-90 entries: the aggregates beyond the 64th are
		// aggregates like the first
		na = r.Range(60, 90)
	}
	for i := 0; i < na; i++ {
		switch r.Intn(5) {
		case 0, 1:
			aggs = append(aggs, proto.NItem{Kind: "count"})
		case 2:
			// COUNT(col) over a nullable column (first or last column of the
			// table) or over any other column
			col := []string{"nn", "n0", "n0", "g1", "gi", "gb", "v"}[r.Intn(7)]
			arg := &proto.Operand{Col: col}
			if r.Chance(1, 3) {
				arg.Qual = q
			}
			aggs = append(aggs, proto.NItem{Kind: "count", Arg: arg})
		case 3:
			aggs = append(aggs, proto.NItem{Kind: "avg", Arg: &proto.Operand{Col: "v"}})
		default:
			aggs = append(aggs, proto.NItem{Kind: "avg", Arg: &proto.Operand{Col: "w"}})
		}
		if padded && aggs[len(aggs)-1].Kind == "avg" {
			aggs[len(aggs)-1] = proto.NItem{Kind: "count", Arg: &proto.Operand{Col: []string{"n0", "v", "g1"}[r.Intn(3)]}}
		}
		if r.Chance(1, 4) {
			aggs[len(aggs)-1].Alias = fmt.Sprintf("ag%d", i)
		}
	}
	// interleave grouping items and aggregates at random positions
	var items []proto.NItem
	gi, ai := 0, 0
	for gi < len(gitems) || ai < len(aggs) {
		if gi < len(gitems) && (ai >= len(aggs) || r.Bool()) {
			items = append(items, gitems[gi].item)
			gi++
		} else {
			items = append(items, aggs[ai])
			ai++
		}
	}
	n.Items = items
	// GROUP BY lists the grouping items in a random order
	order := r.Intn(6)
	idx := []int{0, 1, 2}[:len(gitems)]
	if len(idx) == 2 && order%2 == 1 {
		idx[0], idx[1] = idx[1], idx[0]
	}
	if len(idx) == 3 {
		perms := [][]int{{0, 1, 2}, {0, 2, 1}, {1, 0, 2}, {1, 2, 0}, {2, 0, 1}, {2, 1, 0}}
		idx = perms[order]
	}
	for _, i := range idx {
		n.GroupBy = append(n.GroupBy, gitems[i].ref)
	}
	if !padded && r.Chance(1, 3) {
		fields := []FieldInfo{{Qual: q, Name: "gi", Type: "int"}, {Qual: q, Name: "v", Type: "int"}, {Qual: q, Name: "g1", Type: "varchar"}, {Qual: q, Name: "gb", Type: "boolean"}}
		saveLit := g.LitFor
		_ = saveLit
		n.Where = BoolShape(Shapes(2)[r.Intn(2)], func() *proto.Cond {
			f := fields[r.Intn(len(fields))]
			switch f.Type {
			case "int":
				return &proto.Cond{Op: []string{"<", ">=", "=", "!="}[r.Intn(4)], LHS: &proto.Operand{Col: f.Name}, RHS: model.LitOp(proto.Int([]int64{1, 2, 5, 12}[r.Intn(4)]))}
			case "boolean":
				return &proto.Cond{Op: "=", LHS: &proto.Operand{Col: f.Name}, RHS: model.LitOp(proto.Bool(r.Bool()))}
			}
			return &proto.Cond{Op: []string{"=", "!="}[r.Intn(2)], LHS: &proto.Operand{Col: f.Name}, RHS: model.LitOp(proto.Str([]string{"1", "12", ""}[r.Intn(3)]))}
		})
	}
	if !padded && len(n.GroupBy) > 0 && n.Where == nil && r.Chance(1, 4) {
		// every grouping column named in the condition, one of them through an
		// OR of two equalities with different values: the groups stay apart
		var conds []*proto.Cond
		for gi, gb := range n.GroupBy {
			name := gb.Col
			var a, b proto.Val
			switch name {
			case "gi":
				a, b = proto.Int(1), proto.Int(12)
			case "gj":
				a, b = proto.Int(23), proto.Int(3)
			case "g1":
				a, b = proto.Str("1"), proto.Str("12")
			case "g2":
				a, b = proto.Str("23"), proto.Str("3")
			case "gb":
				a, b = proto.Bool(true), proto.Bool(false)
			default:
				conds = nil
			}
			if a.K == 0 {
				conds = nil
				break
			}
			col := &proto.Operand{Col: name}
			eq := func(v proto.Val) *proto.Cond { return &proto.Cond{Op: "=", LHS: col, RHS: model.LitOp(v)} }
			if gi == 0 {
				conds = append(conds, model.Or(eq(a), eq(b)))
			} else {
				conds = append(conds, eq(a))
			}
		}
		// (no parentheses in the grammar: an OR can only stand at the top, so
		// only a single grouping column gets the OR form)
		if len(conds) == 1 {
			n.Where = conds[0]
		}
	}
	onlyCounts := true
	for _, a := range aggs {
		onlyCounts = onlyCounts && a.Kind == "count"
	}
	if len(gitems) > 0 && !padded && onlyCounts && r.Chance(1, 3) {
		// ORDER BY some of the grouping columns (a strict subset, all of
		// them, in another order than GROUP BY lists them), ascending or not:
		// the groups are the same with or without it. (Only next to COUNTs and
		// without NULL-padded sides: AVG has its known finding, and where NULL
		// keys sort is C05's subject.) The key is written the way the select
		// list writes the column: by its alias when it has one.
		k := r.Range(1, len(gitems))
		start := r.Intn(len(gitems))
		for x := 0; x < k; x++ {
			gi := gitems[(start+x)%len(gitems)]
			key := *gi.item.Expr.LHS
			if gi.item.Alias != "" {
				key = proto.Operand{Col: gi.item.Alias}
			}
			n.OrderBy = append(n.OrderBy, proto.NOrder{Col: key, Desc: r.Bool()})
		}
	}
	// LIMIT / OFFSET apply to the aggregated result, never to its input: an
	// ungrouped aggregate with LIMIT 1 still covers every row
	if r.Chance(1, 5) {
		if r.Chance(2, 3) {
			n.HasLimit, n.Limit = true, []int{0, 1, 1, 2, 5}[r.Intn(5)]
		}
		if !n.HasLimit || r.Chance(1, 3) {
			n.HasOffset, n.Offset = true, []int{0, 0, 1, 2}[r.Intn(4)]
		}
	}
	return n
}
