package gen

import (
	"fmt"
	"strings"

	"verif/harness/internal/core"
	"verif/harness/internal/model"
	"verif/harness/proto"
)

// StmtGen generates statement trees over the whole supported grammar without
// reference to any database (parsing does not need one).
type StmtGen struct {
	R    *core.Rand
	Pool []string // identifiers to use instead of the built-in pool
}

var identPool = []string{"t1", "t2", "orders", "col_a", "x", "y", "name", "qty", "a", "b", "c", "is_ok", "T", "Mixed_Case", "tbl9", "café", "straße", "имя2", "列१x", "tbl٣", "db１",
	// ordinary words that look like keywords or that the grammar mentions without reserving them
	"databases", "Databases", "DATABASES", "tables", "selects", "orderby", "groups", "limits", "nulls", "trues", "int8", "values1", "shows", "keys", "counts", "average"}
var oddIdents = []string{"my col", "select", "from", "a-b", "1st", "o'hara", "semi;colon"}

func (g *StmtGen) ident() string {
	if g.Pool != nil {
		return g.Pool[g.R.Intn(len(g.Pool))]
	}
	if g.R.Chance(1, 12) {
		return oddIdents[g.R.Intn(len(oddIdents))]
	}
	return identPool[g.R.Intn(len(identPool))]
}

func (g *StmtGen) lit() proto.Val {
	r := g.R
	switch r.Intn(5) {
	case 0:
		return proto.Int(int64(r.Intn(1000)))
	case 1:
		return proto.Int([]int64{0, 1, 2147483647, 2147483648, 9223372036854775807}[r.Intn(5)])
	case 2:
		return proto.Bool(r.Bool())
	}
	return proto.Str([]string{"", "a", "it is", "x;y", "SELECT", "with \"dq\"", "50%", "a,b", "(p)", "  sp  ", "é", "AND", "it\\'s", "x\\'", "a\\\\b", "\"json\"", "\\'lead", "\"", "tail\\\\"}[r.Intn(19)])
}

func (g *StmtGen) colRef(quals []string) *proto.Operand {
	o := &proto.Operand{Col: g.ident()}
	if len(quals) > 0 && g.R.Chance(1, 3) {
		o.Qual = quals[g.R.Intn(len(quals))]
	}
	return o
}

func (g *StmtGen) operand(quals []string) *proto.Operand {
	if g.R.Chance(1, 2) {
		return model.LitOp(g.lit())
	}
	return g.colRef(quals)
}

var cmpOps = []string{"=", "!=", "<", "<=", ">", ">="}

func (g *StmtGen) cmp(quals []string) *proto.Cond {
	return &proto.Cond{Op: cmpOps[g.R.Intn(6)], LHS: g.operand(quals), RHS: g.operand(quals)}
}

func (g *StmtGen) CondShape(shape []int, quals []string) *proto.Cond {
	return BoolShape(shape, func() *proto.Cond { return g.cmp(quals) })
}

func (g *StmtGen) cond(quals []string, max int) *proto.Cond {
	n := g.R.Range(1, max)
	sh := Shapes(n)
	return g.CondShape(sh[g.R.Intn(len(sh))], quals)
}

func (g *StmtGen) Select() *proto.NStmt {
	r := g.R
	n := &proto.NStmt{Kind: "select"}
	var quals []string
	nj := []int{0, 0, 1, 2}[r.Intn(4)]
	for i := 0; i <= nj; i++ {
		t := proto.NTable{Name: g.ident()}
		if r.Chance(1, 2) {
			t.Alias = fmt.Sprintf("q%d", i)
			quals = append(quals, t.Alias)
		} else {
			quals = append(quals, t.Name)
		}
		if i > 0 {
			t.Join = []string{"inner", "left", "right"}[r.Intn(3)]
		}
		n.From = append(n.From, t)
	}
	for i := 1; i <= nj; i++ {
		n.From[i].On = g.cond(quals, 3)
	}
	hasAgg := false
	if r.Chance(1, 4) {
		n.Star = true
	} else {
		k := r.Range(1, 5)
		usedCols := map[string]bool{}
		for i := 0; i < k; i++ {
			it := proto.NItem{Kind: "expr"}
			switch x := r.Intn(12); {
			case x < 5:
				o := g.colRef(quals)
				for usedCols[o.Col] {
					o.Col = fmt.Sprintf("%s%d", o.Col, i)
				}
				usedCols[o.Col] = true
				it.Expr = &proto.Cond{Op: "val", LHS: o}
			case x < 7:
				it.Expr = &proto.Cond{Op: "val", LHS: model.LitOp(g.lit())}
			case x < 9:
				it.Expr = g.cond(quals, 2)
			case x < 10:
				it = proto.NItem{Kind: "count"}
				hasAgg = true
			case x < 11:
				it = proto.NItem{Kind: "count", Arg: g.colRef(quals)}
				hasAgg = true
			default:
				it = proto.NItem{Kind: "avg", Arg: g.colRef(quals)}
				hasAgg = true
			}
			if r.Chance(1, 3) {
				it.Alias = fmt.Sprintf("al%d", i)
			}
			n.Items = append(n.Items, it)
		}
	}
	if r.Chance(2, 3) {
		n.Where = g.cond(quals, 5)
	}
	if !n.Star && (hasAgg || r.Chance(1, 6)) {
		// every plain column of the select list must be grouped
		for _, it := range n.Items {
			if it.Kind == "expr" && it.Expr.Op == "val" && it.Expr.LHS.Lit == nil {
				o := *it.Expr.LHS
				switch {
				case it.Alias != "" && r.Bool():
					o = proto.Operand{Col: it.Alias}
				case r.Bool():
					o.Qual = ""
				}
				n.GroupBy = append(n.GroupBy, o)
			}
		}
	}
	k := []int{0, 0, 1, 2, 3}[r.Intn(5)]
	for i := 0; i < k; i++ {
		n.OrderBy = append(n.OrderBy, proto.NOrder{Col: *g.colRef(quals), Desc: r.Bool()})
	}
	if r.Chance(1, 2) {
		n.HasLimit, n.Limit = true, r.Intn(1000)
	}
	if r.Chance(1, 2) {
		n.HasOffset, n.Offset = true, r.Intn(1000)
	}
	return n
}

func (g *StmtGen) Insert() *proto.NStmt {
	r := g.R
	n := &proto.NStmt{Kind: "insert", Name: g.ident()}
	w := r.Range(1, 5)
	if r.Chance(1, 2) {
		for i := 0; i < w; i++ {
			n.Cols = append(n.Cols, g.ident())
		}
	}
	rows := r.Range(1, 5)
	for i := 0; i < rows; i++ {
		row := []proto.Val{}
		for j := 0; j < w; j++ {
			row = append(row, g.lit())
		}
		n.Rows = append(n.Rows, row)
	}
	return n
}

// LongInsert is an INSERT whose text runs to several kilobytes, with string
// literals made of multi-byte characters at every byte alignment: wherever
// the front end cuts its input into chunks, some literal straddles the cut.
func (g *StmtGen) LongInsert() *proto.NStmt {
	r := g.R
	n := &proto.NStmt{Kind: "insert", Name: g.ident()}
	w := r.Range(2, 4)
	pieces := []string{"€", "é", "日", "𝄞", "ß", "x", " ", "\xe2\x82", "\xc3"}
	for i, rows := 0, r.Range(20, 60); i < rows; i++ {
		row := []proto.Val{}
		for j := 0; j < w; j++ {
			if j == 0 || r.Bool() {
				b := []byte("abc"[:(i+j)%4])
				for want := r.Range(5, 40); len(b) < want; {
					b = append(b, pieces[r.Intn(len(pieces))]...)
				}
				row = append(row, proto.Str(string(b)))
			} else {
				row = append(row, g.lit())
			}
		}
		n.Rows = append(n.Rows, row)
	}
	return n
}

// HugeToken is a statement with ONE literal or quoted identifier of 1.2-6 KB
// made of characters of mixed UTF-8 width: the token spans several of the
// front end's read buffers, with characters straddling every boundary.
func (g *StmtGen) HugeToken() *proto.NStmt {
	r := g.R
	pieces := []string{"€", "é", "日", "𝄞", "ß", "x", "yz", " ", "a b", "ж"}
	b := []byte("abc"[:r.Intn(4)])
	for want := r.Range(1200, 6000); len(b) < want; {
		b = append(b, pieces[r.Intn(len(pieces))]...)
	}
	lit := string(b)
	switch r.Intn(4) {
	case 0:
		return &proto.NStmt{Kind: "select", From: []proto.NTable{{Name: "t"}}, Items: []proto.NItem{{Kind: "expr", Expr: &proto.Cond{Op: "val", LHS: model.ColOp("id")}}, {Kind: "expr", Expr: &proto.Cond{Op: "val", LHS: model.LitOp(proto.Str(lit))}}}}
	case 1:
		return &proto.NStmt{Kind: "delete", Name: "t", Where: &proto.Cond{Op: "=", LHS: model.ColOp("s"), RHS: model.LitOp(proto.Str(lit))}}
	case 2:
		return &proto.NStmt{Kind: "select", Star: true, From: []proto.NTable{{Name: strings.ReplaceAll(lit, " ", "_") + " q"}}} // a name that needs quotes
	}
	return &proto.NStmt{Kind: "insert", Name: "t", Rows: [][]proto.Val{{proto.Int(1), proto.Str(lit)}, {proto.Int(2), proto.Str("short")}}}
}

func (g *StmtGen) Update() *proto.NStmt {
	r := g.R
	n := &proto.NStmt{Kind: "update", Name: g.ident()}
	k := r.Range(1, 4)
	for i := 0; i < k; i++ {
		n.Sets = append(n.Sets, proto.NSet{Col: g.ident(), Src: *g.operand(nil)})
	}
	if r.Chance(2, 3) {
		n.Where = g.cond(nil, 5)
	}
	return n
}

func (g *StmtGen) Delete() *proto.NStmt {
	n := &proto.NStmt{Kind: "delete", Name: g.ident()}
	if g.R.Chance(2, 3) {
		n.Where = g.cond(nil, 5)
	}
	return n
}

func (g *StmtGen) CreateTable() *proto.NStmt {
	r := g.R
	n := &proto.NStmt{Kind: "create_table", Name: g.ident()}
	k := r.Range(1, 6)
	for i := 0; i < k; i++ {
		d := proto.ColDef{Name: g.ident(), Type: []string{"int", "bigint", "varchar", "boolean"}[r.Intn(4)]}
		if d.Type == "varchar" {
			d.Len = []int64{0, 1, 255, 65535, 2147483647, 9223372036854775807}[r.Intn(6)]
		}
		n.Defs = append(n.Defs, d)
	}
	return n
}

func (g *StmtGen) Any() *proto.NStmt {
	switch x := g.R.Intn(20); {
	case x < 9:
		return g.Select()
	case x < 12:
		return g.Insert()
	case x < 14:
		return g.Update()
	case x < 16:
		return g.Delete()
	case x < 18:
		return g.CreateTable()
	case x == 18:
		return &proto.NStmt{Kind: []string{"create_db", "use"}[g.R.Intn(2)], Name: g.ident()}
	}
	return &proto.NStmt{Kind: "show", Name: []string{"", "s"}[g.R.Intn(2)]}
}
