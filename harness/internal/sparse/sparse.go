// Package sparse copies files without reading their holes: a data file whose
// allocation frontier was moved beyond 4 GiB occupies a few pages, and its
// crash images must not occupy more.
package sparse

import (
	"io"
	"os"
	"syscall"
)

const (
	seekData = 3
	seekHole = 4
)

// CopyFile copies src to dst (created or truncated), data extents only.
func CopyFile(src, dst string) error {
	in, err := os.Open(src)
	if err != nil {
		return err
	}
	defer in.Close()
	fi, err := in.Stat()
	if err != nil {
		return err
	}
	out, err := os.Create(dst)
	if err != nil {
		return err
	}
	size := fi.Size()
	buf := make([]byte, 1<<20)
	fd := int(in.Fd())
	off := int64(0)
	for off < size {
		data, err := syscall.Seek(fd, off, seekData)
		if err != nil {
			if err == syscall.ENXIO {
				break // no data beyond off
			}
			// the file system does not know about holes: plain copy of the rest
			data = off
			if _, err := in.Seek(off, io.SeekStart); err != nil {
				out.Close()
				return err
			}
			if _, err := out.Seek(off, io.SeekStart); err != nil {
				out.Close()
				return err
			}
			if _, err := io.Copy(out, in); err != nil {
				out.Close()
				return err
			}
			off = size
			break
		}
		hole, err := syscall.Seek(fd, data, seekHole)
		if err != nil {
			hole = size
		}
		for p := data; p < hole; {
			n := int64(len(buf))
			if hole-p < n {
				n = hole - p
			}
			k, err := in.ReadAt(buf[:n], p)
			if k > 0 {
				if _, werr := out.WriteAt(buf[:k], p); werr != nil {
					out.Close()
					return werr
				}
				p += int64(k)
			}
			if err != nil {
				if err == io.EOF {
					break
				}
				out.Close()
				return err
			}
		}
		off = hole
	}
	if err := out.Truncate(size); err != nil {
		out.Close()
		return err
	}
	return out.Close()
}
